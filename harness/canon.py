"""Map calmjs.parse trees to the canonical schema shared with R1 (DESIGN.md 3.4).

to_cn(node) builds CN objects (kind, fields, src=calmjs node) that mirror
ref_es5.N; canon(cn) gives the comparable nested tuple.  Unknown node classes or
unexpected attributes fail loudly (CanonError) so nothing is silently ignored.
"""
from harness.ref_es5 import canon as _canon_generic

META = frozenset(['lexpos', 'lineno', 'colno', 'sourcepath', 'comments', '_token_map', '_children_list'])


class CanonError(Exception):
    pass


class CN(object):
    __slots__ = ('kind', 'fields', 'src', 'extra')

    def __init__(self, kind, fields, src, extra=None):
        self.kind = kind
        self.fields = fields
        self.src = src
        self.extra = extra  # calmjs nodes folded into this one (e.g. ExprStatement wrappers in for)


def _attrs(node, expected):
    got = set(vars(node)) - META
    if got != set(expected):
        raise CanonError('%s has attributes %s, expected %s' % (
            type(node).__name__, sorted(got), sorted(expected)))


def _kids(node):
    return list(getattr(node, '_children_list', []) or [])


def _ident(node):
    if type(node).__name__ != 'Identifier':
        raise CanonError('expected Identifier, got %s' % type(node).__name__)
    _attrs(node, ['value'])
    return CN('Ident', [node.value], node)


def _stmts(lst):
    return [to_cn(x) for x in (lst or [])]


def _propname(node):
    name = type(node).__name__
    if name == 'PropIdentifier':
        return CN('PropIdent', [node.value], node)
    if name == 'String':
        return CN('Str', [node.value], node)
    if name == 'Number':
        return CN('Num', [node.value], node)
    raise CanonError('bad property name node %s' % name)


def _for_clause(node):
    """For.init / For.cond wrappers -> optional expression (or Var)"""
    if node is None:
        return None, None
    name = type(node).__name__
    if name == 'EmptyStatement':
        return None, node
    if name == 'ExprStatement':
        return to_cn(node.expr), node
    if name == 'VarStatement':
        return to_cn(node), None
    raise CanonError('unexpected for clause %s' % name)


def to_cn(node):
    if node is None:
        return None
    name = type(node).__name__
    f = _TABLE.get(name)
    if f is None:
        raise CanonError('unknown node class %s' % name)
    return f(node)


def _program(n):
    return CN('Program', [_stmts(_kids(n))], n)


def _block(n):
    return CN('Block', [_stmts(_kids(n))], n)


def _var(n):
    return CN('Var', [[to_cn(x) for x in _kids(n)]], n)


def _vardecl(n):
    _attrs(n, ['identifier', 'initializer'])
    return CN('VarDecl', [_ident(n.identifier), to_cn(n.initializer)], n)


def _simple(kind, attrs=()):
    def f(n):
        _attrs(n, attrs)
        return CN(kind, [], n)
    return f


def _valued(kind):
    def f(n):
        _attrs(n, ['value'])
        return CN(kind, [n.value], n)
    return f


def _fields(kind, attrs):
    def f(n):
        _attrs(n, attrs)
        return CN(kind, [to_cn(getattr(n, a)) for a in attrs], n)
    return f


def _for(n):
    _attrs(n, ['init', 'cond', 'count', 'statement'])
    init, w1 = _for_clause(n.init)
    cond, w2 = _for_clause(n.cond)
    if type(n.cond).__name__ == 'VarStatement':
        raise CanonError('var in for condition')
    return CN('For', [init, cond, to_cn(n.count), to_cn(n.statement)], n, extra=[w1, w2])


def _labelled(kind):
    def f(n):
        _attrs(n, ['identifier'])
        return CN(kind, [None if n.identifier is None else _ident(n.identifier)], n)
    return f


def _switch(n):
    _attrs(n, ['expr', 'case_block'])
    cb = n.case_block
    if type(cb).__name__ != 'CaseBlock':
        raise CanonError('switch without CaseBlock')
    return CN('Switch', [to_cn(n.expr), [to_cn(x) for x in _kids(cb)]], n, extra=[cb])


def _case(n):
    _attrs(n, ['expr', 'elements'])
    return CN('Case', [to_cn(n.expr), _stmts(n.elements)], n)


def _default(n):
    _attrs(n, ['elements'])
    return CN('Default', [_stmts(n.elements)], n)


def _label(n):
    _attrs(n, ['identifier', 'statement'])
    return CN('Label', [_ident(n.identifier), to_cn(n.statement)], n)


def _try(n):
    _attrs(n, ['statements', 'catch', 'fin'])
    return CN('Try', [to_cn(n.statements), to_cn(n.catch), to_cn(n.fin)], n)


def _catch(n):
    _attrs(n, ['identifier', 'elements'])
    return CN('Catch', [_ident(n.identifier), to_cn(n.elements)], n)


def _finally(n):
    _attrs(n, ['elements'])
    return CN('Finally', [to_cn(n.elements)], n)


def _func(kind):
    def f(n):
        _attrs(n, ['identifier', 'parameters', 'elements'])
        return CN(kind, [None if n.identifier is None else _ident(n.identifier),
                         [_ident(p) for p in n.parameters], _stmts(n.elements)], n)
    return f


def _array(n):
    _attrs(n, ['items'])
    items = []
    for it in n.items:
        if type(it).__name__ == 'Elision':
            items.append(CN('Elision', [str(it.value)], it))
        else:
            items.append(to_cn(it))
    return CN('Array', [items], n)


def _object(n):
    _attrs(n, ['properties'])
    props = []
    for p in n.properties:
        name = type(p).__name__
        if name == 'Assign':
            _attrs(p, ['op', 'left', 'right'])
            if p.op != ':':
                raise CanonError('object property with op %r' % (p.op,))
            props.append(CN('Init', [_propname(p.left), to_cn(p.right)], p))
        elif name == 'GetPropAssign':
            _attrs(p, ['prop_name', 'elements'])
            props.append(CN('Getter', [_propname(p.prop_name), _stmts(p.elements)], p))
        elif name == 'SetPropAssign':
            _attrs(p, ['prop_name', 'parameter', 'elements'])
            props.append(CN('Setter', [_propname(p.prop_name), _ident(p.parameter), _stmts(p.elements)], p))
        else:
            raise CanonError('unexpected object member %s' % name)
    return CN('Object', [props], n)


def _paren(n):
    _attrs(n, ['expr'])
    return CN('Paren', [to_cn(n.expr)], n)


def _dot(n):
    _attrs(n, ['node', 'identifier'])
    return CN('Dot', [to_cn(n.node), _propname(n.identifier)], n)


def _index(n):
    _attrs(n, ['node', 'expr'])
    return CN('Index', [to_cn(n.node), to_cn(n.expr)], n)


def _args(n):
    _attrs(n, ['items'])
    return CN('Args', [[to_cn(x) for x in n.items]], n)


def _call(n):
    _attrs(n, ['identifier', 'args'])
    if type(n.args).__name__ != 'Arguments':
        raise CanonError('call without Arguments')
    return CN('Call', [to_cn(n.identifier), _args(n.args)], n)


def _new(n):
    _attrs(n, ['identifier', 'args'])
    return CN('New', [to_cn(n.identifier), None if n.args is None else _args(n.args)], n)


def _postfix(n):
    _attrs(n, ['op', 'value'])
    return CN('Postfix', [n.op, to_cn(n.value)], n)


def _unary(n):
    _attrs(n, ['op', 'value'])
    return CN('Unary', [n.op, to_cn(n.value)], n)


def _binop(n):
    _attrs(n, ['op', 'left', 'right'])
    return CN('Binary', [n.op, to_cn(n.left), to_cn(n.right)], n)


def _assign(n):
    _attrs(n, ['op', 'left', 'right'])
    if n.op == ':':
        raise CanonError('property assignment outside object literal')
    return CN('Assign', [n.op, to_cn(n.left), to_cn(n.right)], n)


def _ident_ref(n):
    _attrs(n, ['value'])
    return CN('Ident', [n.value], n)


def _propident(n):
    # only legal under Dot / object members, handled by _propname
    raise CanonError('PropIdentifier in expression position')


def _this(n):
    _attrs(n, [])
    return CN('This', [], n)


def _null(n):
    _attrs(n, ['value'])
    return CN('Null', [], n)


def _elision(n):
    raise CanonError('Elision outside array literal')


_TABLE = {
    'ES5Program': _program, 'Program': _program, 'Block': _block,
    'VarStatement': _var, 'VarDecl': _vardecl, 'VarDeclNoIn': _vardecl,
    'EmptyStatement': _simple('Empty', ['value']),
    'ExprStatement': _fields('Expr', ['expr']),
    'If': _fields('If', ['predicate', 'consequent', 'alternative']),
    'DoWhile': lambda n: (_attrs(n, ['predicate', 'statement']),
                          CN('DoWhile', [to_cn(n.statement), to_cn(n.predicate)], n))[1],
    'While': _fields('While', ['predicate', 'statement']),
    'For': _for,
    'ForIn': _fields('ForIn', ['item', 'iterable', 'statement']),
    'Continue': _labelled('Continue'), 'Break': _labelled('Break'),
    'Return': _fields('Return', ['expr']),
    'With': _fields('With', ['expr', 'statement']),
    'Switch': _switch, 'Case': _case, 'Default': _default,
    'Label': _label, 'Throw': _fields('Throw', ['expr']),
    'Try': _try, 'Catch': _catch, 'Finally': _finally,
    'Debugger': _simple('Debugger', ['value']),
    'FuncDecl': _func('FuncDecl'), 'FuncExpr': _func('FuncExpr'),
    'Identifier': _ident_ref, 'PropIdentifier': _propident,
    'This': _this, 'Null': _null, 'Boolean': _valued('Bool'),
    'Number': _valued('Num'), 'String': _valued('Str'), 'Regex': _valued('Regex'),
    'Array': _array, 'Object': _object, 'Elision': _elision,
    'GroupingOp': _paren, 'DotAccessor': _dot, 'BracketAccessor': _index,
    'FunctionCall': _call, 'NewExpr': _new, 'Arguments': _args,
    'PostfixExpr': _postfix, 'UnaryExpr': _unary, 'BinOp': _binop,
    'Conditional': _fields('Cond', ['predicate', 'consequent', 'alternative']),
    'Assign': _assign, 'Comma': _fields('Comma', ['left', 'right']),
}


def canon_calmjs(node):
    return _canon_generic(to_cn(node))


def tree_stats(t):
    """(number of nodes, depth, set of kinds) of a canonical tuple tree"""
    kinds = set()
    count = [0]

    def walk(x, d):
        if isinstance(x, tuple):
            if x and isinstance(x[0], str) and x[0][:1].isupper() and x[0].isalpha():
                kinds.add(x[0])
                count[0] += 1
                return max([d] + [walk(y, d + 1) for y in x[1:]])
            return max([d] + [walk(y, d) for y in x])
        return d
    depth = walk(t, 0)
    return count[0], depth, kinds


def first_diff(a, b, path=()):
    """human-readable first difference between two canonical trees"""
    if a == b:
        return None
    if isinstance(a, tuple) and isinstance(b, tuple):
        if len(a) != len(b):
            return '%s: length %d vs %d: %r vs %r' % ('/'.join(map(str, path)), len(a), len(b),
                                                       _short(a), _short(b))
        for i, (x, y) in enumerate(zip(a, b)):
            d = first_diff(x, y, path + ((a[0] if i and isinstance(a[0], str) else '') + '[%d]' % i,))
            if d:
                return d
    return '%s: %r vs %r' % ('/'.join(map(str, path)), _short(a), _short(b))


def _short(x):
    s = repr(x)
    return s if len(s) < 200 else s[:200] + '...'
