# -*- coding: utf-8 -*-
"""G4 - lexical soup: sequences of lexical elements with rich spellings and arbitrary
separators, not constrained to be programs (C06, C12)."""
from hypothesis import strategies as st

from harness import gen_program as gp

PUNCT = ['{', '}', '(', ')', '[', ']', '.', ';', ',', '<', '>', '<=', '>=', '==', '!=', '===', '!==', '+', '-', '*',
         '%', '++', '--', '<<', '>>', '>>>', '&', '|', '^', '!', '~', '&&', '||', '?', ':', '=', '+=', '-=', '*=',
         '%=', '<<=', '>>=', '>>>=', '&=', '|=', '^=']
KEYWORDS = ['break', 'case', 'catch', 'continue', 'debugger', 'default', 'delete', 'do', 'else', 'finally', 'for',
            'function', 'if', 'in', 'instanceof', 'new', 'return', 'switch', 'this', 'throw', 'try', 'typeof', 'var',
            'void', 'while', 'with', 'null', 'true', 'false', 'class', 'const', 'enum', 'export', 'extends',
            'import', 'super']
IDENTS = gp.IDS_COMMON + gp.IDS_ODD + [u'a1\u00e9', u'x\u0300\u03a9', u'a\u203f\u0434', u'$\u0663\u65e5', u'\u00e91\u00e9',
                                        'breakx', 'xbreak', 'New', 'IF', 'nullish', 'truer', 'functions', 'ina',
                                       u'\u00e5ngstr\u00f6m', u'\u03c0', u'\u05d0\u05d1', u'\u0627\u0628', u'\u0915\u093e',
                                       u'\u3042\u3044', u'\ud55c\uae00', 'a_b', '__proto__', '$$', 'x0', u'a\u0301b',
                                       u'n\u0660', u'c\uff3f']
NUMS = gp.NUMS_COMMON + gp.NUMS_ODD + ['0.0', '9e9', '1E-7', '0xdeadBEEF', '0777', '3.14159', '100', '.0', '0e0']
STRS = gp.STRS_COMMON + gp.STRS_ODD + ['"a\x0cb"', u"'\x85'", '"\x0b\x1c"', "'\x1d\\\n\x1e'", '"\\u2028"', u'"\u00e9\u00e8"', "'\\\u2028'", '"\\\u2029x"', "'a\\\n\\\nb'",
                                       '"\\x00"', "'\\uFFFF'", '"\\0"', u'"\\\u00e9"', '"\\ "']
WS = [' ', '  ', '\t', '\x0b', '\x0c', u'\xa0', u'\ufeff', u'\u1680', u'\u2000', u'\u2003', u'\u200a', u'\u202f',
      u'\u205f', u'\u3000']
LTS = ['\n', '\r', '\r\n', u'\u2028', u'\u2029']
COMMENTS = ['/*c*/', '/**/', '/***/', '/* * / */', '/*\n*/', '/*a\r\nb\rc\u2028d*/', '//x\n', '//\r\n', u'//\u00e9\u2028',
            '// /* \n', '/*//*/', '//*/\n', '/* " */', "/*'*/",
            # characters that split lines for Python (str.splitlines) but are not ES5 line terminators
            '/*a\x0cb*/', '/*\x0b*/', u'/*\x85*/', '/*\x1c\x1d\x1e*/', '//p\x0cq\n', u'//\x85\x1e\n', '/*\x0c\n\x0b*/']


KW_SUFFIX = ['x', '_', '$', '1', 'Check', 's', u'\u00e9', 'of', 'In']


RESTRICTED = ('return', 'break', 'continue', 'throw')
AFTER_RESTRICTED = ['/*a\nb*/', ' /*\n*/ ', '\n', '//c\n', '/*1*/ /*2\n*/ /*3*/', ' /* x */\n/* y */ ', '/*a\rb*/\r\n',
                    ' /*c*/ ', '\n\n', '/*\n*/\n/*\n*/', ' ']


def element():
    return st.one_of(
        st.sampled_from(IDENTS).map(lambda s: ('id', s)),
        # identifiers over every BMP character that is an identifier character in any Unicode version >= 3
        st.tuples(st.sampled_from(gp.STABLE_START), st.lists(st.one_of(
            st.sampled_from(gp.STABLE_START), st.sampled_from(gp.STABLE_PART), st.sampled_from('aZ09_$')),
            max_size=3)).map(lambda t: ('id', t[0] + ''.join(t[1]))),
        # every reserved word extended to an identifier (keyword only on exact match), or prefixed
        st.tuples(st.sampled_from(KEYWORDS), st.sampled_from(KW_SUFFIX)).map(lambda t: ('id', t[0] + t[1])),
        st.tuples(st.sampled_from(['x', '_', '$']), st.sampled_from(KEYWORDS)).map(lambda t: ('id', t[0] + t[1])),
        st.sampled_from(KEYWORDS).map(lambda s: ('kw', s)),
        st.sampled_from(PUNCT).map(lambda s: ('p', s)),
        st.sampled_from(NUMS).map(lambda s: ('num', s)),
        st.sampled_from(STRS).map(lambda s: ('str', s)),
    )


# characters that Python (str.isspace, the regex class \s) counts as white space and ES5 does not; as a
# separator they make the text lexically invalid (the lexer raises: outside the quantifier), and a lexer that
# swallows them shows a gap that is not layout
NOT_WS = ['\x85', '\x1c', '\x1d', '\x1e', '\x1f', u'\u200b']


def separator(allow_empty=True):
    parts = st.one_of(st.sampled_from(WS), st.sampled_from(LTS), st.sampled_from(COMMENTS),
                      st.sampled_from([' ', ' ', '\n']), st.sampled_from(WS), st.sampled_from(LTS),
                      st.sampled_from(COMMENTS), st.sampled_from([' ', ' ', '\n']), st.sampled_from(NOT_WS))
    return st.lists(parts, min_size=0 if allow_empty else 1, max_size=3).map(''.join)


@st.composite
def soup(draw, max_elems=14):
    """slash-free lexical soup that must lex without error: returns (text, [(kind, text, offset)])"""
    n = draw(st.integers(0, max_elems))
    out = []
    toks = []
    pos = 0
    lead = draw(separator())
    out.append(lead)
    pos += len(lead)
    prev = None
    for _ in range(n):
        kind, text = draw(element())
        forced = None
        if prev is not None and prev.text in RESTRICTED and draw(st.booleans()):
            # what follows a restricted keyword: layout with the line break in every position, then a
            # semicolon / operand / operator (the lexer inserts or withholds a semicolon token here)
            forced = draw(st.sampled_from(AFTER_RESTRICTED))
            kind, text = draw(st.sampled_from([('p', ';'), ('p', ';'), ('id', 'x'), ('p', '++'), ('str', '"s"'),
                                               ('p', '}'), ('num', '1')]))
        tk = gp.Tk(text, kind)
        if prev is not None:
            sep = forced if forced is not None else draw(separator())
            # a separator ending in a line comment must end with a line terminator: all of ours do
            if sep == '' and not gp.can_join(prev, tk):
                sep = ' '
            # `/` may not precede a comment opener: no bare `/` tokens in soup, nothing to guard
            out.append(sep)
            pos += len(sep)
        out.append(text)
        toks.append((kind, text, pos))
        pos += len(text)
        prev = tk
    out.append(draw(separator()))
    return ''.join(out), toks


HOT = ['\\', "'", '"', '/', '*', '(', ')', '{', '}', '[', ']', '0', '8', '9', 'x', 'u', 'e', '.', '+', '-', '=', '\n',
       '\r', u'\u2028', ' ', ';', ',', ':', 'a', '1', '<', '>', '!', '?', '&', '|', '%', '^', '~', u'\ufeff', '\t',
       '\x00', u'\ud800', '#', '@', '`']
