# -*- coding: utf-8 -*-
"""R1 - reference ECMAScript 5.1 front end (DESIGN.md 3.5, appendix A).

Written from ECMA-262 5.1 clauses 7, 11-14 and Annex A; shares no code, table or
regular expression with calmjs.parse.  Deviations, all stated by the property
list: function declarations are admitted wherever a statement is; no early
errors; Annex B legacy octal number/escape spellings are accepted.

parse(text) -> Ref(tree, tokens, comments, semis) or raises RefSyntaxError.
"""
import unicodedata

WS_EXTRA = u'\t\x0b\x0c \xa0\ufeff'
LT = u'\n\r\u2028\u2029'

KEYWORDS = frozenset('''break case catch continue debugger default delete do else finally for function if in
instanceof new return switch this throw try typeof var void while with'''.split())
FUTURE = frozenset('class const enum export extends import super'.split())
LITWORDS = frozenset(['null', 'true', 'false'])
RESERVED = KEYWORDS | FUTURE | LITWORDS

PUNCT = ['>>>=', '===', '!==', '>>>', '<<=', '>>=', '<=', '>=', '==', '!=', '++', '--', '<<', '>>', '&&', '||',
         '+=', '-=', '*=', '%=', '&=', '|=', '^=', '{', '}', '(', ')', '[', ']', '.', ';', ',', '<', '>', '+',
         '-', '*', '%', '&', '|', '^', '!', '~', '?', ':', '=']
PUNCT_BY_LEN = sorted(PUNCT, key=lambda p: -len(p))
ASSIGN_OPS = frozenset(['=', '*=', '/=', '%=', '+=', '-=', '<<=', '>>=', '>>>=', '&=', '^=', '|='])
BINARY_PREC = {
    '||': 1, '&&': 2, '|': 3, '^': 4, '&': 5,
    '==': 6, '!=': 6, '===': 6, '!==': 6,
    '<': 7, '>': 7, '<=': 7, '>=': 7, 'instanceof': 7, 'in': 7,
    '<<': 8, '>>': 8, '>>>': 8,
    '+': 9, '-': 9,
    '*': 10, '/': 10, '%': 10,
}
UNARY_OPS = frozenset(['delete', 'void', 'typeof', '++', '--', '+', '-', '~', '!'])
HEX = frozenset('0123456789abcdefABCDEF')
DIGITS = frozenset('0123456789')


def is_ws(ch):
    return ch in WS_EXTRA or (ch not in LT and unicodedata.category(ch) == 'Zs')


def is_lt(ch):
    return ch in LT


def is_id_start(ch):
    if ch == '$' or ch == '_':
        return True
    if ord(ch) > 0xffff:
        # ES5 source text is a sequence of UTF-16 code units (clause 6): a character outside the BMP is a
        # surrogate pair, and surrogates (category Cs) are not identifier characters
        return False
    return unicodedata.category(ch) in ('Lu', 'Ll', 'Lt', 'Lm', 'Lo', 'Nl')


def is_id_part(ch):
    if is_id_start(ch):
        return True
    if ch in u'\u200c\u200d':
        return True
    if ord(ch) > 0xffff:
        return False
    return unicodedata.category(ch) in ('Mn', 'Mc', 'Nd', 'Pc')


class RefSyntaxError(Exception):
    def __init__(self, msg, pos, ntokens=0):
        Exception.__init__(self, '%s at offset %d' % (msg, pos))
        self.msg = msg
        self.pos = pos
        self.ntokens = ntokens
        self.tokens = []


class Tok(object):
    __slots__ = ('type', 'text', 'start', 'end', 'nl_before', 'name', 'index')
    # type: ident | keyword | punct | num | str | regex | eof
    # (keyword includes future reserved words and null/true/false)

    def __init__(self, type_, text, start, end, nl_before, name=None):
        self.type = type_
        self.text = text
        self.start = start
        self.end = end
        self.nl_before = nl_before
        self.name = name  # unescaped identifier name
        self.index = None

    def __repr__(self):
        return 'Tok(%s,%r,%d)' % (self.type, self.text, self.start)


class N(object):
    """Reference tree node: kind, ordered fields (str | None | N | list of N), and the
    token indexes of its first, last and operator token."""
    __slots__ = ('kind', 'fields', 'first', 'last', 'op')

    def __init__(self, kind, fields, first, last, op=None):
        self.kind = kind
        self.fields = fields
        self.first = first
        self.last = last
        self.op = op

    def canon(self):
        return canon(self)


def canon(n):
    if n is None or isinstance(n, str):
        return n
    if isinstance(n, list):
        return tuple(canon(x) for x in n)
    if n.kind == 'Paren':
        inner = n.fields[0]
        while isinstance(inner, N) and inner.kind == 'Paren':
            inner = inner.fields[0]
        return ('Paren', canon(inner))
    return (n.kind,) + tuple(canon(f) for f in n.fields)


class Ref(object):
    def __init__(self, root, tokens, comments, semis, text):
        self.root = root
        self.tree = canon(root)
        self.tokens = tokens
        self.comments = comments
        self.semis = semis
        self.text = text


class Lexer(object):
    def __init__(self, text):
        self.text = text
        self.n = len(text)
        self.pos = 0
        self.comments = []  # (kind, text, start, end, has_lt)

    def err(self, msg, pos):
        raise RefSyntaxError(msg, pos)

    def skip(self):
        """skip white space, line terminators and comments; returns nl flag"""
        t, n = self.text, self.n
        nl = False
        while self.pos < n:
            ch = t[self.pos]
            if ch in LT:
                nl = True
                self.pos += 1
            elif ch == '/' and self.pos + 1 < n and t[self.pos + 1] == '/':
                s = self.pos
                self.pos += 2
                while self.pos < n and t[self.pos] not in LT:
                    self.pos += 1
                self.comments.append(('line', t[s:self.pos], s, self.pos, False))
            elif ch == '/' and self.pos + 1 < n and t[self.pos + 1] == '*':
                s = self.pos
                e = t.find('*/', self.pos + 2)
                if e < 0:
                    self.err('unterminated comment', s)
                self.pos = e + 2
                body = t[s:self.pos]
                has = any(c in LT for c in body)
                nl = nl or has
                self.comments.append(('block', body, s, self.pos, has))
            elif is_ws(ch):
                self.pos += 1
            else:
                break
        return nl

    def next(self, regex_allowed=False):
        ncomments = len(self.comments)
        save = self.pos
        nl = self.skip()
        t, n = self.text, self.n
        s = self.pos
        if s >= n:
            return Tok('eof', '', s, s, nl)
        ch = t[s]
        if is_id_start(ch) or ch == '\\':
            return self.ident(s, nl)
        if ch in DIGITS or (ch == '.' and s + 1 < n and t[s + 1] in DIGITS):
            return self.number(s, nl)
        if ch == '"' or ch == "'":
            return self.string(s, nl)
        if ch == '/':
            if regex_allowed:
                return self.regex(s, nl)
            if s + 1 < n and t[s + 1] == '=':
                self.pos = s + 2
                return Tok('punct', '/=', s, s + 2, nl)
            self.pos = s + 1
            return Tok('punct', '/', s, s + 1, nl)
        for p in PUNCT_BY_LEN:
            if t.startswith(p, s):
                self.pos = s + len(p)
                return Tok('punct', p, s, self.pos, nl)
        self.err('illegal character %r' % ch, s)

    def ident(self, s, nl):
        t, n = self.text, self.n
        pos = s
        name = []
        first = True
        while pos < n:
            ch = t[pos]
            if ch == '\\':
                if pos + 5 < n + 0 and t[pos + 1] == 'u' and all(c in HEX for c in t[pos + 2:pos + 6]) \
                        and len(t[pos + 2:pos + 6]) == 4:
                    c = chr(int(t[pos + 2:pos + 6], 16))
                    ok = is_id_start(c) if first else is_id_part(c)
                    if not ok:
                        self.err('invalid escaped identifier character', pos)
                    name.append(c)
                    pos += 6
                else:
                    self.err('invalid identifier escape', pos)
            elif (is_id_start(ch) if first else is_id_part(ch)):
                name.append(ch)
                pos += 1
            else:
                break
            first = False
        self.pos = pos
        text = t[s:pos]
        name = ''.join(name)
        # reserved words are recognised only when written without escapes
        if text == name and name in RESERVED:
            return Tok('keyword', text, s, pos, nl, name)
        return Tok('ident', text, s, pos, nl, name)

    def number(self, s, nl):
        t, n = self.text, self.n
        pos = s
        if t[pos] == '0' and pos + 1 < n and t[pos + 1] in 'xX':
            pos += 2
            st = pos
            while pos < n and t[pos] in HEX:
                pos += 1
            if pos == st:
                self.err('bad hex literal', s)
        elif t[pos] == '0' and pos + 1 < n and t[pos + 1] in '01234567':
            # Annex B.1.1 legacy octal
            pos += 1
            while pos < n and t[pos] in '01234567':
                pos += 1
        else:
            if t[pos] == '.':
                pos += 1
                while pos < n and t[pos] in DIGITS:
                    pos += 1
            else:
                if t[pos] == '0':
                    pos += 1
                else:
                    while pos < n and t[pos] in DIGITS:
                        pos += 1
                if pos < n and t[pos] == '.':
                    pos += 1
                    while pos < n and t[pos] in DIGITS:
                        pos += 1
            if pos < n and t[pos] in 'eE':
                p2 = pos + 1
                if p2 < n and t[p2] in '+-':
                    p2 += 1
                st = p2
                while p2 < n and t[p2] in DIGITS:
                    p2 += 1
                if p2 == st:
                    self.err('bad exponent', s)
                pos = p2
        if pos < n and (t[pos] in DIGITS or is_id_start(t[pos]) or t[pos] == '\\'):
            self.err('identifier or digit directly after numeric literal', pos)
        self.pos = pos
        return Tok('num', t[s:pos], s, pos, nl)

    def string(self, s, nl):
        t, n = self.text, self.n
        q = t[s]
        pos = s + 1
        while True:
            if pos >= n:
                self.err('unterminated string', s)
            ch = t[pos]
            if ch == q:
                pos += 1
                break
            if ch in LT:
                self.err('unterminated string', s)
            if ch == '\\':
                pos += 1
                if pos >= n:
                    self.err('unterminated string', s)
                c = t[pos]
                if c == '\r' and pos + 1 < n and t[pos + 1] == '\n':
                    pos += 2
                elif c in LT:
                    pos += 1
                elif c == 'x':
                    if pos + 2 < n + 0 and len(t[pos + 1:pos + 3]) == 2 and all(h in HEX for h in t[pos + 1:pos + 3]):
                        pos += 3
                    else:
                        self.err('bad hex escape', pos - 1)
                elif c == 'u':
                    if len(t[pos + 1:pos + 5]) == 4 and all(h in HEX for h in t[pos + 1:pos + 5]):
                        pos += 5
                    else:
                        self.err('bad unicode escape', pos - 1)
                elif c in '89':
                    self.err('bad escape', pos - 1)
                else:
                    pos += 1
            else:
                pos += 1
        self.pos = pos
        return Tok('str', t[s:pos], s, pos, nl)

    def regex(self, s, nl):
        t, n = self.text, self.n
        pos = s + 1
        if pos < n and t[pos] == '*':
            self.err('bad regex', s)
        in_class = False
        while True:
            if pos >= n or t[pos] in LT:
                self.err('unterminated regex', s)
            ch = t[pos]
            if ch == '\\':
                if pos + 1 >= n or t[pos + 1] in LT:
                    self.err('unterminated regex', s)
                pos += 2
            elif in_class:
                if ch == ']':
                    in_class = False
                pos += 1
            elif ch == '[':
                in_class = True
                pos += 1
            elif ch == '/':
                if pos == s + 1:
                    self.err('empty regex', s)
                pos += 1
                break
            else:
                pos += 1
        while pos < n and (is_id_part(t[pos])):
            pos += 1
        # an escaped identifier part in the flags is grammatically allowed; not generated, treat as error
        if pos < n and t[pos] == '\\':
            self.err('escape in regex flags', pos)
        self.pos = pos
        return Tok('regex', t[s:pos], s, pos, nl)


def tokenize(text):
    """Lexer-only view for inputs without `/` tokens (goal symbol irrelevant).
    Returns (tokens, comments)."""
    lx = Lexer(text)
    out = []
    while True:
        tk = lx.next(False)
        if tk.type == 'eof':
            break
        tk.index = len(out)
        out.append(tk)
    return out, lx.comments


class Parser(object):
    def __init__(self, text, allow_return_outside=True):
        self.text = text
        self.lx = Lexer(text)
        self.tokens = []
        self.semis = []
        self.tok = None
        self.peeked = None
        self.in_function = 0
        self.advance()

    # -- token plumbing ---------------------------------------------------
    def err(self, msg, tok=None):
        tok = tok or self.tok
        e = RefSyntaxError(msg, tok.start, len(self.tokens))
        e.tokens = list(self.tokens) + ([tok] if tok.type != 'eof' else [])
        raise e

    def _lex(self, regex=False):
        try:
            return self.lx.next(regex)
        except RefSyntaxError as e:
            e.ntokens = len(self.tokens)
            e.tokens = list(self.tokens)
            raise

    def advance(self):
        """consume current token (record it) and lex the next with the Div goal"""
        cur = self.tok
        if cur is not None and cur.type != 'eof':
            cur.index = len(self.tokens)
            self.tokens.append(cur)
        if self.peeked is not None:
            self.tok = self.peeked
            self.peeked = None
        else:
            self.tok = self._lex(False)
        return cur

    def peek(self):
        """token after the current one (Div goal); only used where no regexp can follow"""
        if self.peeked is None:
            self.peeked = self._lex(False)
        return self.peeked

    def rescan_regex(self):
        """current token is `/` or `/=` in a position where a primary expression
        must start: InputElementRegExp applies"""
        assert self.peeked is None
        cur = self.tok
        # drop comments recorded after this token start (none can be: comments precede tokens)
        self.lx.pos = cur.start
        ncom = len(self.lx.comments)
        tk = self._lex(True)
        del self.lx.comments[ncom:]
        tk.nl_before = cur.nl_before
        self.tok = tk

    def is_p(self, text):
        return self.tok.type == 'punct' and self.tok.text == text

    def is_kw(self, text):
        return self.tok.type == 'keyword' and self.tok.text == text

    def expect_p(self, text):
        if not self.is_p(text):
            self.err('expected %r' % text)
        return self.advance()

    def expect_kw(self, text):
        if not self.is_kw(text):
            self.err('expected %r' % text)
        return self.advance()

    def mark(self):
        return len(self.tokens)

    def node(self, kind, fields, first, op=None):
        return N(kind, fields, first, len(self.tokens) - 1, op)

    def consume_semicolon(self):
        if self.is_p(';'):
            t = self.advance()
            self.semis.append({'kind': 'explicit', 'tok': t.index, 'pos': t.start})
            return
        if self.is_p('}') or self.tok.type == 'eof' or self.tok.nl_before:
            self.semis.append({'kind': 'inserted', 'tok': None, 'pos': self.tok.start,
                               'before': self.tok.text, 'by': ('rbrace' if self.is_p('}') else
                                                                'eof' if self.tok.type == 'eof' else 'newline')})
            return
        self.err('missing semicolon')

    # -- program ----------------------------------------------------------
    def parse_program(self):
        first = self.mark()
        body = []
        while self.tok.type != 'eof':
            body.append(self.statement())
        return self.node('Program', [body], first)

    def statement(self):
        t = self.tok
        first = self.mark()
        if t.type == 'punct':
            if t.text == '{':
                return self.block()
            if t.text == ';':
                tk = self.advance()
                self.semis.append({'kind': 'empty', 'tok': tk.index, 'pos': tk.start})
                return self.node('Empty', [], first)
        elif t.type == 'keyword':
            k = t.text
            if k == 'var':
                self.advance()
                decls = self.var_decls(True)
                self.consume_semicolon()
                return self.node('Var', [decls], first)
            if k == 'if':
                return self.if_statement()
            if k == 'do':
                self.advance()
                body = self.statement()
                self.expect_kw('while')
                self.expect_p('(')
                test = self.expression(True)
                self.expect_p(')')
                self.consume_semicolon()
                return self.node('DoWhile', [body, test], first)
            if k == 'while':
                self.advance()
                self.expect_p('(')
                test = self.expression(True)
                self.expect_p(')')
                body = self.statement()
                return self.node('While', [test, body], first)
            if k == 'for':
                return self.for_statement()
            if k in ('continue', 'break'):
                self.advance()
                label = None
                if self.tok.type == 'ident' and not self.tok.nl_before:
                    lt = self.advance()
                    label = N('Ident', [lt.name], lt.index, lt.index)
                self.consume_semicolon()
                return self.node('Continue' if k == 'continue' else 'Break', [label], first)
            if k == 'return':
                self.advance()
                e = None
                if not (self.is_p(';') or self.is_p('}') or self.tok.type == 'eof' or self.tok.nl_before):
                    e = self.expression(True)
                self.consume_semicolon()
                return self.node('Return', [e], first)
            if k == 'with':
                self.advance()
                self.expect_p('(')
                obj = self.expression(True)
                self.expect_p(')')
                body = self.statement()
                return self.node('With', [obj, body], first)
            if k == 'switch':
                return self.switch_statement()
            if k == 'throw':
                self.advance()
                if self.tok.nl_before:
                    self.err('line terminator after throw')
                e = self.expression(True)
                self.consume_semicolon()
                return self.node('Throw', [e], first)
            if k == 'try':
                return self.try_statement()
            if k == 'debugger':
                self.advance()
                self.consume_semicolon()
                return self.node('Debugger', [], first)
            if k == 'function':
                return self.function(True)
        elif t.type == 'ident':
            nxt = self.peek()
            if nxt.type == 'punct' and nxt.text == ':':
                lt = self.advance()
                colon = self.advance()
                body = self.statement()
                return self.node('Label', [N('Ident', [lt.name], lt.index, lt.index), body], first, colon.index)
        # expression statement (lookahead not `{` or `function`, both handled above)
        e = self.expression(True)
        self.consume_semicolon()
        return self.node('Expr', [e], first)

    def block(self):
        first = self.mark()
        self.expect_p('{')
        body = []
        while not self.is_p('}'):
            if self.tok.type == 'eof':
                self.err('unexpected end of input in block')
            body.append(self.statement())
        self.advance()
        return self.node('Block', [body], first)

    def var_decls(self, allow_in):
        decls = []
        while True:
            first = self.mark()
            if self.tok.type != 'ident':
                self.err('expected identifier in var')
            it = self.advance()
            ident = N('Ident', [it.name], it.index, it.index)
            init = None
            op = None
            if self.is_p('='):
                op = self.advance().index
                init = self.assignment(allow_in)
            decls.append(self.node('VarDecl', [ident, init], first, op))
            if self.is_p(','):
                self.advance()
                continue
            return decls

    def if_statement(self):
        first = self.mark()
        self.advance()
        self.expect_p('(')
        test = self.expression(True)
        self.expect_p(')')
        then = self.statement()
        alt = None
        if self.is_kw('else'):
            self.advance()
            alt = self.statement()
        return self.node('If', [test, then, alt], first)

    def for_statement(self):
        first = self.mark()
        self.advance()
        self.expect_p('(')
        init = None
        if self.is_kw('var'):
            vfirst = self.mark()
            self.advance()
            decls = self.var_decls(False)
            if len(decls) == 1 and self.is_kw('in'):
                decls[0].first = vfirst  # the for-in declaration owns its `var` keyword
                self.advance()
                right = self.expression(True)
                self.expect_p(')')
                body = self.statement()
                return self.node('ForIn', [decls[0], right, body], first)
            init = N('Var', [decls], vfirst, len(self.tokens) - 1)
        elif not self.is_p(';'):
            e = self.expression(False)
            if self.is_kw('in'):
                # for ( LeftHandSideExpression in Expression )
                if not self.is_lhs(e):
                    self.err('invalid left-hand side in for-in')
                self.advance()
                right = self.expression(True)
                self.expect_p(')')
                body = self.statement()
                return self.node('ForIn', [e, right, body], first)
            init = e
        t = self.expect_p(';')
        self.semis.append({'kind': 'for', 'tok': t.index, 'pos': t.start})
        test = None
        if not self.is_p(';'):
            test = self.expression(True)
        t = self.expect_p(';')
        self.semis.append({'kind': 'for', 'tok': t.index, 'pos': t.start})
        update = None
        if not self.is_p(')'):
            update = self.expression(True)
        self.expect_p(')')
        body = self.statement()
        return self.node('For', [init, test, update, body], first)

    def switch_statement(self):
        first = self.mark()
        self.advance()
        self.expect_p('(')
        disc = self.expression(True)
        self.expect_p(')')
        self.expect_p('{')
        clauses = []
        seen_default = False
        while not self.is_p('}'):
            cfirst = self.mark()
            if self.is_kw('case'):
                self.advance()
                test = self.expression(True)
                self.expect_p(':')
                body = self.clause_body()
                clauses.append(self.node('Case', [test, body], cfirst))
            elif self.is_kw('default'):
                if seen_default:
                    self.err('more than one default clause')
                seen_default = True
                self.advance()
                self.expect_p(':')
                body = self.clause_body()
                clauses.append(self.node('Default', [body], cfirst))
            else:
                self.err('expected case or default')
        self.advance()
        return self.node('Switch', [disc, clauses], first)

    def clause_body(self):
        body = []
        while not (self.is_p('}') or self.is_kw('case') or self.is_kw('default')):
            if self.tok.type == 'eof':
                self.err('unexpected end of input in switch')
            body.append(self.statement())
        return body

    def try_statement(self):
        first = self.mark()
        self.advance()
        block = self.block()
        catch = fin = None
        if self.is_kw('catch'):
            cfirst = self.mark()
            self.advance()
            self.expect_p('(')
            if self.tok.type != 'ident':
                self.err('expected identifier in catch')
            it = self.advance()
            self.expect_p(')')
            cb = self.block()
            catch = self.node('Catch', [N('Ident', [it.name], it.index, it.index), cb], cfirst)
        if self.is_kw('finally'):
            ffirst = self.mark()
            self.advance()
            fb = self.block()
            fin = self.node('Finally', [fb], ffirst)
        if catch is None and fin is None:
            self.err('try without catch or finally')
        return self.node('Try', [block, catch, fin], first)

    def function(self, declaration):
        first = self.mark()
        self.expect_kw('function')
        name = None
        if self.tok.type == 'ident':
            it = self.advance()
            name = N('Ident', [it.name], it.index, it.index)
        elif declaration:
            self.err('function declaration requires a name')
        self.expect_p('(')
        params = []
        if not self.is_p(')'):
            while True:
                if self.tok.type != 'ident':
                    self.err('expected parameter name')
                it = self.advance()
                params.append(N('Ident', [it.name], it.index, it.index))
                if self.is_p(','):
                    self.advance()
                    continue
                break
        self.expect_p(')')
        body = self.function_body()
        return self.node('FuncDecl' if declaration else 'FuncExpr', [name, params, body], first)

    def function_body(self):
        self.expect_p('{')
        body = []
        while not self.is_p('}'):
            if self.tok.type == 'eof':
                self.err('unexpected end of input in function body')
            body.append(self.statement())
        self.advance()
        return body

    # -- expressions ------------------------------------------------------
    def is_lhs(self, e):
        return e.kind in ('Ident', 'This', 'Null', 'Bool', 'Num', 'Str', 'Regex', 'Array', 'Object', 'Paren',
                          'Dot', 'Index', 'Call', 'New', 'FuncExpr')

    def expression(self, allow_in):
        first = self.mark()
        e = self.assignment(allow_in)
        while self.is_p(','):
            op = self.advance().index
            r = self.assignment(allow_in)
            e = self.node('Comma', [e, r], first, op)
        return e

    def assignment(self, allow_in):
        first = self.mark()
        left = self.conditional(allow_in)
        if self.tok.type == 'punct' and self.tok.text in ASSIGN_OPS and self.is_lhs(left):
            opt = self.advance()
            right = self.assignment(allow_in)
            return self.node('Assign', [opt.text, left, right], first, opt.index)
        return left

    def conditional(self, allow_in):
        first = self.mark()
        test = self.binary(allow_in, 1)
        if self.is_p('?'):
            op = self.advance().index
            a = self.assignment(True)
            self.expect_p(':')
            b = self.assignment(allow_in)
            return self.node('Cond', [test, a, b], first, op)
        return test

    def binop(self, allow_in):
        t = self.tok
        if t.type == 'punct' and t.text in BINARY_PREC:
            return t.text
        if t.type == 'keyword' and t.text == 'instanceof':
            return t.text
        if t.type == 'keyword' and t.text == 'in' and allow_in:
            return t.text
        return None

    def binary(self, allow_in, minprec):
        first = self.mark()
        left = self.unary()
        while True:
            op = self.binop(allow_in)
            if op is None:
                break
            prec = BINARY_PREC[op]
            if prec < minprec:
                break
            opt = self.advance()
            right = self.binary(allow_in, prec + 1)
            left = self.node('Binary', [op, left, right], first, opt.index)
        return left

    def unary(self):
        t = self.tok
        first = self.mark()
        if (t.type == 'punct' and t.text in UNARY_OPS) or \
                (t.type == 'keyword' and t.text in ('delete', 'void', 'typeof')):
            opt = self.advance()
            v = self.unary()
            return self.node('Unary', [opt.text, v], first, opt.index)
        return self.postfix()

    def postfix(self):
        first = self.mark()
        e = self.lhs()
        if self.tok.type == 'punct' and self.tok.text in ('++', '--') and not self.tok.nl_before \
                and self.is_lhs(e):
            opt = self.advance()
            return self.node('Postfix', [opt.text, e], first, opt.index)
        return e

    def arguments(self):
        first = self.mark()
        self.expect_p('(')
        args = []
        if not self.is_p(')'):
            while True:
                args.append(self.assignment(True))
                if self.is_p(','):
                    self.advance()
                    continue
                break
        self.expect_p(')')
        return self.node('Args', [args], first)

    def member_tail(self, e, first, allow_call):
        while True:
            if self.is_p('.'):
                op = self.advance().index
                if self.tok.type not in ('ident', 'keyword'):
                    self.err('expected property name after .')
                it = self.advance()
                e = self.node('Dot', [e, N('PropIdent', [it.name], it.index, it.index)], first, op)
            elif self.is_p('['):
                op = self.advance().index
                idx = self.expression(True)
                self.expect_p(']')
                e = self.node('Index', [e, idx], first, op)
            elif allow_call and self.is_p('('):
                args = self.arguments()
                e = self.node('Call', [e, args], first, args.first)
            else:
                return e

    def new_expr(self):
        """`new` MemberExpression Arguments | `new` NewExpression"""
        first = self.mark()
        self.expect_kw('new')
        if self.is_kw('new'):
            inner = self.new_expr()
        else:
            inner = self.primary()
        inner = self.member_tail(inner, first + 1, False)
        if self.is_p('('):
            args = self.arguments()
            return self.node('New', [inner, args], first)
        return self.node('New', [inner, None], first)

    def lhs(self):
        first = self.mark()
        if self.is_kw('new'):
            e = self.new_expr()
        else:
            e = self.primary()
        return self.member_tail(e, first, True)

    def primary(self):
        t = self.tok
        first = self.mark()
        if t.type == 'punct' and t.text in ('/', '/='):
            self.rescan_regex()
            t = self.tok
        if t.type == 'ident':
            self.advance()
            return self.node('Ident', [t.name], first)
        if t.type == 'num':
            self.advance()
            return self.node('Num', [t.text], first)
        if t.type == 'str':
            self.advance()
            return self.node('Str', [t.text], first)
        if t.type == 'regex':
            self.advance()
            return self.node('Regex', [t.text], first)
        if t.type == 'keyword':
            if t.text == 'this':
                self.advance()
                return self.node('This', [], first)
            if t.text == 'null':
                self.advance()
                return self.node('Null', [], first)
            if t.text in ('true', 'false'):
                self.advance()
                return self.node('Bool', [t.text], first)
            if t.text == 'function':
                return self.function(False)
        if t.type == 'punct':
            if t.text == '(':
                self.advance()
                e = self.expression(True)
                self.expect_p(')')
                return self.node('Paren', [e], first)
            if t.text == '[':
                return self.array()
            if t.text == '{':
                return self.object()
        if t.type == 'eof':
            self.err('unexpected end of input')
        self.err('unexpected token %r' % t.text)

    def array(self):
        first = self.mark()
        self.expect_p('[')
        items = []
        while True:
            n = 0
            efirst = self.mark()
            while self.is_p(','):
                self.advance()
                n += 1
            if n:
                items.append(N('Elision', [str(n)], efirst, len(self.tokens) - 1))
            if self.is_p(']'):
                break
            items.append(self.assignment(True))
            if self.is_p(','):
                self.advance()
                continue
            if not self.is_p(']'):
                self.err('expected , or ] in array literal')
        self.advance()
        return self.node('Array', [items], first)

    def property_name(self):
        t = self.tok
        if t.type in ('ident', 'keyword'):
            self.advance()
            return N('PropIdent', [t.name], t.index, t.index)
        if t.type == 'str':
            self.advance()
            return N('Str', [t.text], t.index, t.index)
        if t.type == 'num':
            self.advance()
            return N('Num', [t.text], t.index, t.index)
        self.err('expected property name')

    def object(self):
        first = self.mark()
        self.expect_p('{')
        props = []
        while not self.is_p('}'):
            pfirst = self.mark()
            t = self.tok
            if t.type == 'ident' and t.text in ('get', 'set'):
                nxt = self.peek()
                if nxt.type in ('ident', 'keyword', 'str', 'num'):
                    self.advance()
                    name = self.property_name()
                    self.expect_p('(')
                    if t.text == 'get':
                        self.expect_p(')')
                        body = self.function_body()
                        props.append(self.node('Getter', [name, body], pfirst))
                    else:
                        if self.tok.type != 'ident':
                            self.err('expected setter parameter')
                        it = self.advance()
                        self.expect_p(')')
                        body = self.function_body()
                        props.append(self.node('Setter', [name, N('Ident', [it.name], it.index, it.index), body],
                                               pfirst))
                    if self.is_p(','):
                        self.advance()
                        continue
                    if not self.is_p('}'):
                        self.err('expected , or } in object literal')
                    continue
            name = self.property_name()
            colon = self.expect_p(':')
            val = self.assignment(True)
            props.append(self.node('Init', [name, val], pfirst, colon.index))
            if self.is_p(','):
                self.advance()
                continue
            if not self.is_p('}'):
                self.err('expected , or } in object literal')
        self.advance()
        return self.node('Object', [props], first)


def parse(text):
    p = Parser(text)
    root = p.parse_program()
    return Ref(root, p.tokens, p.lx.comments, p.semis, text)


def accepts(text):
    try:
        parse(text)
        return True
    except RefSyntaxError:
        return False
