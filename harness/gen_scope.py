"""G7 - scope-shaped programs for the obfuscation property (DESIGN.md 3.3).

Nested functions, parameters, hoisted vars, named function expressions, catch clauses,
closures, labels, property names equal to variable names and free names, all drawn from
a small colliding pool that includes the names the obfuscator itself generates.  No
`with`, no `eval`, function declarations only at function or program level, no `var`
that re-declares a catch parameter inside its catch block.
"""
from hypothesis import strategies as st

POOL = ['a', 'b', 'c', 'd', 'e', 'x', 'y', 'f', 'g', 'aa', 'ab', 'A', '_', '$', 'i', 'n', 'do_', 'If', 'arguments',
        'undefined', 'window', 'z']
LABELS = ['L', 'a', 'b', 'M']
PROPS = ['a', 'b', 'p', 'x', 'length', 'in', 'do', 'e']
ACCESSOR_NAMES = ['a', 'b', 'p', 'x', 'e', 'f']


class G(object):
    def __init__(self, draw):
        self.draw = draw
        self.catch_params = []
        self.labels = []

    def pick(self, n):
        return self.draw(st.integers(0, n - 1))

    def one(self, seq):
        return seq[self.pick(len(seq))]

    def chance(self, p):
        return self.pick(100) < p

    def name(self):
        return self.one(POOL[:9]) if self.chance(70) else self.one(POOL)

    def decl_name(self):
        n = self.name()
        while n in ('arguments', 'undefined') or n in self.catch_params:
            n = self.one(POOL[:9])
            if n in self.catch_params:
                n = 'q' + str(len(self.catch_params))
        return n

    def expr(self, fuel):
        k = self.pick(12) if fuel > 0 else self.pick(3)
        if k <= 1:
            return self.name()
        if k == 2:
            return self.one(['1', '0', '"s"', 'this', 'null'])
        if k == 3:
            return '%s = %s' % (self.name(), self.expr(fuel - 1))
        if k == 4:
            n = self.pick(3)
            return '%s(%s)' % (self.name(), ', '.join(self.expr(fuel - 1) for _ in range(n)))
        if k == 5:
            return '%s.%s' % (self.name(), self.one(PROPS))
        if k == 6:
            n = self.pick(3)
            items = ['%s: %s' % (self.one(PROPS), self.expr(fuel - 1)) for _ in range(n)]
            if fuel > 0 and self.chance(40):
                # accessors: each body is a function scope of its own, code follows in the enclosing one
                saved, saved_labels = self.catch_params, self.labels
                self.catch_params, self.labels = [], []
                for _ in range(1 + self.pick(2)):
                    if self.chance(50):
                        acc = 'get %s() { %s }' % (self.one(ACCESSOR_NAMES), self.body(fuel - 1, top=True))
                    else:
                        acc = 'set %s(%s) { %s }' % (self.one(ACCESSOR_NAMES), self.decl_name(),
                                                    self.body(fuel - 1, top=True))
                    items.insert(self.pick(len(items) + 1), acc)
                self.catch_params, self.labels = saved, saved_labels
            return '({%s})' % ', '.join(items)
        if k == 7:
            return '(%s)' % self.func(fuel - 1, expr=True)
        if k == 8:
            return '%s + %s' % (self.expr(fuel - 1), self.expr(fuel - 1))
        if k == 9:
            return '%s[%s]' % (self.name(), self.expr(fuel - 1))
        if k == 10:
            return '(%s)(%s)' % (self.func(fuel - 1, expr=True), self.expr(fuel - 1))
        return 'typeof %s' % self.name()

    def func(self, fuel, expr=False):
        saved = self.catch_params
        saved_labels = self.labels
        self.catch_params = []
        self.labels = []
        nparams = self.pick(4)
        params = [self.decl_name() for _ in range(nparams)]
        if expr:
            head = 'function %s(%s)' % (self.decl_name() if self.chance(55) else '', ', '.join(params))
        else:
            head = 'function %s(%s)' % (self.decl_name(), ', '.join(params))
        body = self.body(fuel, top=True)
        self.catch_params = saved
        self.labels = saved_labels
        return '%s { %s }' % (head.replace('function (', 'function('), body)

    def body(self, fuel, top):
        n = self.pick(5) if fuel > 0 else self.pick(2)
        return ' '.join(self.stmt(fuel, top) for _ in range(n))

    def stmt(self, fuel, top):
        opts = ['var', 'var', 'expr', 'expr', 'ret']
        if fuel > 0:
            opts += ['if', 'for', 'forin', 'try', 'label', 'block', 'expr', 'while']
            if top:
                opts += ['func', 'func']
        k = self.one(opts)
        if k == 'var':
            n = 1 + self.pick(2)
            return 'var %s;' % ', '.join(
                ('%s = %s' % (self.decl_name(), self.expr(fuel - 1))) if self.chance(60) else self.decl_name()
                for _ in range(n))
        if k == 'expr':
            e = self.expr(fuel)
            if e.startswith(('function', '{')):
                e = '(%s)' % e
            return e + ';'
        if k == 'ret':
            return 'return %s;' % self.expr(fuel - 1)
        if k == 'func':
            return self.func(fuel - 1)
        if k == 'if':
            return 'if (%s) { %s } else { %s }' % (self.expr(fuel - 1), self.body(fuel - 1, False),
                                                    self.body(fuel - 2, False))
        if k == 'while':
            return 'while (%s) { %s }' % (self.expr(fuel - 1), self.body(fuel - 1, False))
        if k == 'for':
            return 'for (var %s = 0; %s; %s) { %s }' % (self.decl_name(), self.expr(fuel - 1), self.expr(fuel - 1),
                                                         self.body(fuel - 1, False))
        if k == 'forin':
            if self.chance(50):
                return 'for (var %s in %s) { %s }' % (self.decl_name(), self.expr(fuel - 1), self.body(fuel - 1, False))
            return 'for (%s in %s) { %s }' % (self.name(), self.expr(fuel - 1), self.body(fuel - 1, False))
        if k == 'try':
            p = self.one(['e', 'a', 'x', 'err', 'b'])
            self.catch_params.append(p)
            cbody = self.body(fuel - 1, False)
            if self.labels and self.chance(50):
                # a jump to an enclosing label from inside the catch block (the label may be
                # spelled like the catch parameter)
                cbody += ' %s %s;' % (self.one(['break', 'continue']), self.one(self.labels))
            self.catch_params.pop()
            fin = ' finally { %s }' % self.body(fuel - 2, False) if self.chance(30) else ''
            return 'try { %s } catch (%s) { %s }%s' % (self.body(fuel - 1, False), p, cbody, fin)
        if k == 'label':
            lab = self.one(LABELS)
            self.labels.append(lab)
            inner = self.body(fuel - 1, False)
            self.labels.pop()
            jump = self.one(['break %s;' % lab, 'continue %s;' % lab, 'break;', ''])
            return '%s: while (%s) { %s %s }' % (lab, self.expr(fuel - 1), inner, jump)
        return '{ %s }' % self.body(fuel - 1, False)


@st.composite
def scope_program(draw):
    g = G(draw)
    fuel = draw(st.integers(2, 5))
    return g.body(fuel, top=True)


NAMECHARS = 'abcdefghijklmnopqrstuvwxyzABCDEFGHIJKLMNOPQRSTUVWXYZ_'


def wide_scope(n, free=('a', 'b', 'aa', 'ab', 'z', 'A'), inner=True):
    """a function declaring n names (v0..v{n-1}), each referenced (with different frequencies, so
    the most used get the shortest names), free globals named like generated names, an inner
    closure and a catch clause"""
    # a few locals that already have the shortest spellings and are hardly used
    decls = ', '.join('v%d = %d' % (i, i) for i in range(n)) + ', q = 1, r, Q = q'
    uses = ' + '.join('v%d' % i for i in range(n))
    extra = ' + '.join('v%d' % (i * 7 % n) for i in range(min(n, 40)))
    frees = ' + '.join(free)
    inner_src = ''
    if inner:
        inner_src = (' function inner(p0, p1) { var w0 = v0 + v1 + p0; try { w0(p1); } catch (e) { e(v2); } '
                     'return function named() { return named(w0, v%d, %s); }; }' % (n - 1, free[0]))
    # a catch clause directly in the wide body: its parameter is named after everything the function holds
    own_catch = ' try { v0(total); } catch (caught) { caught(v1, %s); try { v2(); } catch (again) { again(caught); } }' % free[0]
    return ('function wide() { var %s; var total = %s + %s + %s;%s%s return inner ? total : 0; } wide(%s);'
            % (decls, uses, extra, frees, inner_src, own_catch, frees)) if inner else \
        ('function wide() { var %s; return %s + %s + %s; }' % (decls, uses, extra, frees))
