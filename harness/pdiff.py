"""Parse differential calmjs <-> R1, shared by C03, C04, C05 (and used as a gate by others)."""
from harness import ref_es5, canon


def calmjs_parse(text, with_comments=False):
    """-> ('ok', tree) | ('reject', message) | ('exc', (type name, repr, innermost calmjs frame))"""
    from calmjs.parse.parsers.es5 import parse
    from calmjs.parse.exceptions import ECMASyntaxError
    try:
        return ('ok', parse(text, with_comments=with_comments))
    except ECMASyntaxError as e:
        return ('reject', str(e))
    except RecursionError as e:
        return ('exc', ('RecursionError', 'RecursionError', 'deep'))
    except Exception as e:
        return ('exc', (type(e).__name__, repr(e)[:300], innermost_frame(e)))


def innermost_frame(e):
    import traceback
    tb = traceback.extract_tb(e.__traceback__)
    best = None
    for fr in tb:
        if 'calmjs' in fr.filename:
            best = '%s:%s' % (fr.filename.split('calmjs/parse/')[-1], fr.name)
    return best or (tb[-1].filename.split('/')[-1] + ':' + tb[-1].name if tb else '?')


def ref_parse(text):
    """-> ('ok', Ref) | ('reject', RefSyntaxError)"""
    try:
        return ('ok', ref_es5.parse(text))
    except ref_es5.RefSyntaxError as e:
        return ('reject', e)
    except RecursionError:
        return ('exc', 'RecursionError')


def compare(text, expected_tree=None):
    """Run both front ends.  Returns (failure or None, info) where failure is a dict
    {kind, ...}; kind in accept_diff_calmjs_rejects | accept_diff_calmjs_accepts |
    tree_diff | constructed_tree_diff | exception."""
    c = calmjs_parse(text)
    r = ref_parse(text)
    info = {'calmjs': c[0], 'ref': r[0]}
    if r[0] == 'exc' or (c[0] == 'exc' and c[1][0] == 'RecursionError'):
        info['skip'] = 'recursion'
        return None, info
    if c[0] == 'exc':
        return {'kind': 'exception', 'bucket': '%s@%s' % (c[1][0], c[1][2]), 'error': c[1][1]}, info
    if c[0] == 'reject' and r[0] == 'reject':
        info['ref_ntokens'] = r[1].ntokens
        return None, info
    if c[0] == 'reject':
        return {'kind': 'accept_diff_calmjs_rejects', 'calmjs_error': c[1]}, info
    try:
        ctree = canon.canon_calmjs(c[1])
    except canon.CanonError as e:
        return {'kind': 'canon_error', 'error': str(e)}, info
    info['ctree'] = ctree
    info['cnode'] = c[1]
    if r[0] == 'reject':
        info['ref_partial_tokens'] = r[1].tokens
        return {'kind': 'accept_diff_calmjs_accepts', 'ref_error': str(r[1]), 'ref_msg': r[1].msg,
                'ref_pos': r[1].pos}, info
    info['refobj'] = r[1]
    if ctree != r[1].tree:
        return {'kind': 'tree_diff', 'diff': canon.first_diff(ctree, r[1].tree)}, info
    if expected_tree is not None and ctree != expected_tree:
        return {'kind': 'constructed_tree_diff', 'diff': canon.first_diff(ctree, expected_tree)}, info
    return None, info
