#!/venv/bin/python
"""Coverage-guided campaign for C12 (atheris / libFuzzer), run as a child process of props/c12.py.

usage: fuzz_c12.py <build root> <work dir> <runs> <seed>

The C12 oracle sits inside the target: outcome must be a tree or ECMASyntaxError, the message
position must designate the quoted text.  A violating input is written to <work dir>/finding-*.json
and the campaign continues (so one run enumerates root causes); a JSON summary is printed last.
calmjs.parse must not be imported before atheris.instrument_imports (DESIGN appendix E).
"""
import hashlib
import json
import os
import sys

root, work, runs, seed = sys.argv[1], sys.argv[2], int(sys.argv[3]), int(sys.argv[4])
here = os.path.dirname(os.path.dirname(os.path.abspath(__file__)))
sys.path.insert(0, here)
sys.path.insert(0, os.path.join(here, '.deps'))
import atheris  # noqa: E402

srcdir = os.path.join(root, 'src')
sys.path.insert(0, srcdir)
import calmjs  # noqa: E402  (namespace only)
calmjs.__path__ = [os.path.join(srcdir, 'calmjs')] + [p for p in calmjs.__path__]
with atheris.instrument_imports(include=['calmjs', 'ply']):
    import calmjs.parse.parsers.es5  # noqa: E402
    import calmjs.parse.lexers.es5  # noqa: E402
assert os.path.realpath(calmjs.parse.__file__).startswith(os.path.realpath(root)), calmjs.parse.__file__

from props import c12  # noqa: E402

stats = {'executions': 0, 'findings': 0, 'buckets': {}, 'outcomes': {}}
os.makedirs(work, exist_ok=True)
corpus = os.path.join(work, 'corpus')
os.makedirs(corpus, exist_ok=True)


def record(text, mode, bucket, detail):
    if bucket in stats['buckets']:
        stats['buckets'][bucket] += 1
        return
    stats['buckets'][bucket] = 1
    stats['findings'] += 1
    h = hashlib.blake2b(text.encode('utf-8', 'surrogatepass'), digest_size=8).hexdigest()
    with open(os.path.join(work, 'finding-%s.json' % h), 'w') as fd:
        json.dump({'text': text, 'mode': mode, 'bucket': bucket, 'detail': detail}, fd, ensure_ascii=True)
    dump_stats()


def dump_stats():
    # libFuzzer leaves through os._exit: no atexit, no finally - keep a running summary on disk
    stats['corpus_files'] = len(os.listdir(corpus))
    tmp = os.path.join(work, 'stats.json.tmp')
    with open(tmp, 'w') as fd:
        json.dump(stats, fd)
    os.replace(tmp, os.path.join(work, 'stats.json'))


def one(data):
    fdp = atheris.FuzzedDataProvider(data)
    mode = c12.MODES[fdp.ConsumeIntInRange(0, len(c12.MODES) - 1)]
    text = fdp.ConsumeUnicodeNoSurrogates(fdp.remaining_bytes())
    stats['executions'] += 1
    if stats['executions'] % 200 == 0:
        dump_stats()
    out = c12.outcome(text, mode)
    stats['outcomes'][out[0]] = stats['outcomes'].get(out[0], 0) + 1
    if out[0] == 'exc':
        record(text, mode, '%s@%s' % (out[1], out[3]), out[2])
    elif out[0] == 'syntax':
        bad = c12.check_message(text, out[1])
        if bad:
            record(text, mode, 'message:' + out[1][:30], bad)


def main():
    # seed corpus: repository snippets + the empty input
    n = 0
    try:
        with open(os.path.join(here, 'corpus', 'seed.jsonl')) as fd:
            for line in fd:
                src = json.loads(line)['src']
                with open(os.path.join(corpus, 'seed-%04d' % n), 'wb') as out:
                    out.write(b'\x00' + src.encode('utf-8', 'replace'))
                n += 1
                if n >= 200:
                    break
    except IOError:
        pass
    open(os.path.join(corpus, 'empty'), 'wb').close()
    dict_path = os.path.join(work, 'js.dict')
    with open(dict_path, 'w') as fd:
        for w in ['function', 'return', 'var', 'if', 'else', 'for', 'in', 'while', 'do', 'switch', 'case', 'default',
                  'break', 'continue', 'throw', 'try', 'catch', 'finally', 'new', 'typeof', 'instanceof', 'void',
                  'delete', 'this', 'null', 'true', 'false', 'get', 'set', 'with', 'debugger', '/*', '*/', '//',
                  '===', '!==', '>>>=', '++', '--', '\\\\u', '\\\\x', '0x', '1e', '/=', '=>']:
            fd.write('"%s"\n' % w.replace('"', '\\"'))
    argv = [sys.argv[0], '-runs=%d' % runs, '-seed=%d' % (seed or 1), '-max_len=300', '-dict=' + dict_path,
            '-print_final_stats=0', '-verbosity=0', '-timeout=25', '-artifact_prefix=' + os.path.join(work, ''),
            corpus]
    atheris.Setup(argv, one)
    try:
        atheris.Fuzz()
    finally:
        pass


if __name__ == '__main__':
    import atexit

    def summary():
        stats['corpus_files'] = len(os.listdir(corpus))
        sys.stdout.write('\nFUZZ-SUMMARY ' + json.dumps(stats) + '\n')
        sys.stdout.flush()
    try:
        main()
    except SystemExit:
        pass
    finally:
        summary()
