"""Helpers shared by the unparser-side properties (C01, C02, C20, ...)."""
import re

from harness import ref_es5, canon, pdiff

CONT = re.compile(u'\\\\(\r\n|\n|\r|\u2028|\u2029)')


def pretty(tree, indent):
    from calmjs.parse.unparsers.es5 import pretty_print
    return pretty_print(tree, indent_str=indent)


def minify(tree, **kw):
    from calmjs.parse.unparsers.es5 import minify_print
    return minify_print(tree, **kw)


def strip_continuations(t):
    """canonical tree with line continuations removed from string spellings"""
    if isinstance(t, tuple):
        if len(t) == 2 and t[0] == 'Str' and isinstance(t[1], str):
            return ('Str', CONT.sub('', t[1]))
        return tuple(strip_continuations(x) for x in t)
    return t


STATEMENT_LIST_HOLDERS = {'Program': (1,), 'Block': (1,), 'FuncDecl': (3,), 'FuncExpr': (3,), 'Case': (2,),
                          'Default': (1,), 'Getter': (2,), 'Setter': (3,)}


def drop_empty_statements(t):
    """remove stand-alone empty statements from statement lists (not loop/if bodies)"""
    if isinstance(t, tuple):
        if t and isinstance(t[0], str) and t[0] in STATEMENT_LIST_HOLDERS:
            out = list(t)
            for i in STATEMENT_LIST_HOLDERS[t[0]]:
                if isinstance(out[i], tuple):
                    out[i] = tuple(drop_empty_statements(x) for x in out[i] if x != ('Empty',))
            return tuple(drop_empty_statements(x) if j not in STATEMENT_LIST_HOLDERS[t[0]] else x
                         for j, x in enumerate(out))
        return tuple(drop_empty_statements(x) for x in t)
    return t


def token_seq(ref, drop_semi=False, strip_cont=False):
    """(type, text) of every token except statement-terminating semicolons (and, with
    drop_semi, the `;` of empty statements)"""
    skip = set(s['tok'] for s in ref.semis if s['kind'] == 'explicit')
    # the parser collapses nested groupings ((a)) into one (stated normalisation)
    from harness.findings import walk
    for n in walk(ref.root):
        if n.kind == 'Paren' and isinstance(n.fields[0], ref_es5.N) and n.fields[0].kind == 'Paren':
            skip.add(n.fields[0].first)
            skip.add(n.fields[0].last)
        # optional trailing commas of object / array literals may be dropped by a printer
        if n.kind == 'Object' and n.last - 1 > n.first and ref.tokens[n.last - 1].text == ',':
            skip.add(n.last - 1)
        if n.kind == 'Array' and n.fields[0] and n.fields[0][-1].kind != 'Elision' \
                and ref.tokens[n.last - 1].text == ',':
            skip.add(n.last - 1)
    if drop_semi:
        skip |= set(s['tok'] for s in ref.semis if s['kind'] == 'empty')
    out = []
    for k in ref.tokens:
        if k.index in skip:
            continue
        text = k.text
        if strip_cont and k.type == 'str':
            text = CONT.sub('', text)
        out.append((k.type, text))
    return out


def source_in_domain(acc, src, with_comments=False):
    """A source is in the domain of the printer-side properties when calmjs accepts it and
    reads it as the reference parser does; a parser disagreement is C03/C04/C05's business
    (counted, not judged here).  Returns (calmjs tree, Ref) or (None, None)."""
    failure, info = pdiff.compare(src)
    if info.get('calmjs') != 'ok':
        acc.skipped['source_not_accepted'] += 1
        return None, None
    if failure is not None or 'refobj' not in info:
        acc.skipped['source_parser_disagreement_is_C03'] += 1
        return None, None
    if with_comments:
        c = pdiff.calmjs_parse(src, with_comments=True)
        if c[0] != 'ok':
            acc.skipped['source_not_accepted_with_comments'] += 1
            return None, None
        return c[1], info['refobj']
    return info['cnode'], info['refobj']
