"""Gating self-test of the reference front end R1 (DESIGN.md 3.5a): on trees known by
construction (G1), R1(render(tree)) must give back the tree, for every layout level.
Independent of calmjs.  A failure is a harness error (exit 2), never a violation."""
from harness import ref_es5, gen_program, ref_vlq
from harness.hyp import run_given


class GateError(Exception):
    pass


def run(n=300, seed=424242):
    bad = []
    count = [0]

    def body(p):
        count[0] += 1
        try:
            r = ref_es5.parse(p['text'])
        except ref_es5.RefSyntaxError as e:
            bad.append(('reject', str(e), p['text']))
            return
        if r.tree != p['tree']:
            bad.append(('tree', p['text']))
            return
        # tokens tile the text with only layout in between
        pos = 0
        for k in r.tokens:
            gap = p['text'][pos:k.start]
            if p['text'][k.start:k.end] != k.text:
                bad.append(('token text', p['text']))
                return
            pos = k.end
        written = [(off, p['toks'][i].text) for i, off in p['offsets']]
        if written != [(k.start, k.text) for k in r.tokens]:
            bad.append(('offsets', p['text']))
    run_given(gen_program.program_strategy(), body, n, seed)
    if bad:
        raise GateError('reference front end self-test failed on %d/%d cases, e.g. %r' % (
            len(bad), count[0], bad[0]))
    ref_vlq.selftest()
    return count[0]
