"""Hypothesis glue: seeded, database-less, collect-don't-stop campaigns."""
import time

from hypothesis import HealthCheck, Phase, given, seed as hseed, settings


def run_given(strategy, body, max_examples, seed, acc=None, budget_s=None, shrink=False):
    """Run body(x) on max_examples generated values.  body must *record*
    property failures (acc.fail) instead of raising, so one run enumerates
    root causes; an exception escaping body is a harness error."""
    t0 = time.time()
    state = {'n': 0}

    phases = (Phase.explicit, Phase.generate) + ((Phase.shrink,) if shrink else ())

    @hseed(seed)
    @settings(max_examples=max_examples, database=None, deadline=None,
              report_multiple_bugs=False, derandomize=False, phases=phases,
              suppress_health_check=[HealthCheck.too_slow, HealthCheck.data_too_large,
                                     HealthCheck.large_base_example])
    @given(strategy)
    def test(x):
        if budget_s is not None and time.time() - t0 > budget_s:
            if acc is not None:
                acc.budget_hit = True
            return
        state['n'] += 1
        body(x)

    test()
    return state['n']
