"""R4: Base64 VLQ written from the Source Map V3 text; shares nothing with calmjs."""
ALPHA = ('ABCDEFGHIJKLMNOPQRSTUVWXYZ' 'abcdefghijklmnopqrstuvwxyz' '0123456789' '+/')
assert len(ALPHA) == 64 and len(set(ALPHA)) == 64


def encode(n):
    v = (abs(n) * 2) + (1 if n < 0 else 0)
    out = []
    while True:
        digit = v % 32
        v //= 32
        if v > 0:
            digit += 32
        out.append(ALPHA[digit])
        if v == 0:
            return ''.join(out)


def decode_all(s):
    vals, cur, shift, open_ = [], 0, 0, False
    for ch in s:
        d = ALPHA.index(ch)
        cur += (d % 32) * (32 ** shift)
        shift += 1
        open_ = True
        if d < 32:
            neg = cur % 2 == 1
            mag = cur // 2
            vals.append(-mag if neg else mag)
            cur, shift, open_ = 0, 0, False
    if open_:
        raise ValueError('truncated VLQ')
    return vals


def is_canonical_value(s):
    """one value, no redundant zero group, no negative zero"""
    if not s:
        return False
    ds = [ALPHA.index(c) for c in s]
    if any(d < 32 for d in ds[:-1]) or ds[-1] >= 32:
        return False
    if len(ds) > 1 and ds[-1] == 0:
        return False
    if len(ds) == 1 and ds[0] == 1:
        return False  # "-0"
    return True


def selftest():
    # worked examples from the spec / common knowledge
    table = {0: 'A', 1: 'C', -1: 'D', 2: 'E', -2: 'F', 15: 'e', -15: 'f', 16: 'gB', -16: 'hB',
             123: '2H', 511: '+f', 512: 'ggB', 1000: 'w+B', -1000: 'x+B'}
    for k, v in table.items():
        assert encode(k) == v, (k, v, encode(k))
        assert decode_all(v) == [k]
    assert decode_all('AAgBC') == [0, 0, 16, 1]
    return True
