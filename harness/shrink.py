"""Delta debugging of text-shaped replay cases (DESIGN 3.2 "find, dump, then shrink").

text_shrinker(replay, key) returns a `shrink(failure, budget_s)` hook for a property module: the
case's text is reduced (ddmin over characters, coarse to fine) while `replay` still reports a failure
with the same (signature, bucket).  Purely library-independent; bounded by a wall-clock budget that
only limits how small the replay gets, never whether a violation is reported.
"""
import time

from harness.runner import Acc


def ddmin(text, still_fails, deadline):
    n = 2
    while len(text) >= 2 and time.time() < deadline:
        chunk = max(1, len(text) // n)
        reduced = False
        i = 0
        while i < len(text) and time.time() < deadline:
            cand = text[:i] + text[i + chunk:]
            if cand != text and still_fails(cand):
                text = cand
                reduced = True
                n = max(n - 1, 2)
            else:
                i += chunk
        if not reduced:
            if chunk == 1:
                break
            n = min(len(text), n * 2)
    return text


def text_shrinker(replay, key='text'):
    def shrink(failure, budget_s):
        case = failure['case']
        if not isinstance(case, dict) or not isinstance(case.get(key), str) or len(case[key]) < 8:
            return failure
        want = tuple(failure['key'])
        deadline = time.time() + budget_s
        best = {'f': failure}

        def still_fails(t):
            c = dict(case)
            c[key] = t
            acc = Acc()
            try:
                replay(c, acc)
            except Exception:
                return False
            for f in acc.failures:
                if tuple(f['key']) == want:
                    best['f'] = f
                    return True
            return False
        small = ddmin(case[key], still_fails, deadline)
        f = best['f']
        if f is not failure:
            f = dict(f)
            f['detail'] = dict(f['detail'] or {}, shrunk_from_length=len(case[key]), shrunk_to_length=len(small))
        return f
    return shrink
