# -*- coding: utf-8 -*-
"""G1 - derivation generator (DESIGN.md 3.3).

A transliteration of ECMA-262 5.1 Annex A.3-A.5 into recursive generator
methods.  Every method returns (tree, tokens): the canonical tree the derivation
dictates and the token list that derives it.  Parentheses appear only as
explicit grouping nodes, so the rendered text derives exactly `tree`.

Tokens are Tk(text, kind, flags):
  kind  : id | kw | num | str | re | p
  flags : 'term'  - a statement-terminating `;` (candidate for ASI experiments)
          'nolt'  - no line terminator may precede this token (restricted production)
          'empty' - the `;` of an empty statement, 'forsep' - a for-header `;`
All random choices go through the Hypothesis `draw` handed to Gen.
"""
from hypothesis import strategies as st

from harness import ref_es5


class Tk(object):
    __slots__ = ('text', 'kind', 'flags')

    def __init__(self, text, kind, flags=()):
        self.text = text
        self.kind = kind
        self.flags = frozenset(flags)

    def __repr__(self):
        return 'Tk(%r)' % self.text


def P(text, *flags):
    return Tk(text, 'p', flags)


def K(text, *flags):
    return Tk(text, 'kw', flags)


# identifier pools (see DESIGN appendix A: pre-Unicode-3.0 letters only)
IDS_COMMON = ['a', 'b', 'c', 'x', 'y', 'f', 'g', 'i', 'n']
IDS_ODD = ['$', '_', '$x', 'x$', '_y', 'a1', 'A', 'Zz', 'get', 'set', 'inx', 'newton', 'ins', 'iff', 'dof',
           'of', 'let', 'yield', 'static', 'undefined', 'arguments', 'eval', 'typeofx', 'thisx', 'nulls',
           u'\u00e9', u'\u03a9', u'\u0434', u'\u65e5\u672c', u'a\u00e9', u'x\u0300', u'a\u203fb', u'x\u0663',
           u'\u00f1', 'in1', 'var_', 'q2w3', u'\u212b', u'A\u030a', u'\u2126', u'o\u0302\u0323', u'a\u200c', u'x\u200db']
LABELS = ['L', 'M', 'loop', 'outer', 'a', 'x']
# character classes an IdentifierName is spelled from (pre-Unicode-3.0 characters only)
ID_START_CLASSES = [['a', 'x', 'Z'], ['$', '_'], [u'\u00e9', u'\u03a9', u'\u0434', u'\u65e5']]
ID_PART_CLASSES = ID_START_CLASSES + [['0', '1', '9'], [u'\u0300', u'\u0301'], [u'\u0663', u'\u0966'], [u'\u203f', u'\u2040']]
def stable_identifier_characters():
    """BMP characters that are identifier characters whichever Unicode version (3.0 or later, ES5 7.6) an
    implementation follows: the general category is a letter / letter-number category (start) or a mark /
    digit / connector category (part) both in Unicode 3.2 and in the interpreter's current database.
    Characters outside the BMP are two code units to ES5 and not identifier characters."""
    import unicodedata
    old = unicodedata.ucd_3_2_0
    start_cats = ('Lu', 'Ll', 'Lt', 'Lm', 'Lo', 'Nl')
    part_cats = ('Mn', 'Mc', 'Nd', 'Pc')
    start, part = [], []
    for cp in range(0x80, 0x10000):
        if 0xd800 <= cp <= 0xdfff:
            continue
        ch = chr(cp)
        a, b = unicodedata.category(ch), old.category(ch)
        if a in start_cats and b in start_cats:
            start.append(ch)
        elif a in part_cats and b in part_cats:
            part.append(ch)
    return start, part


STABLE_START, STABLE_PART = stable_identifier_characters()
ID_START_CLASSES.append(STABLE_START)
ID_PART_CLASSES.append(STABLE_START)
ID_PART_CLASSES.append(STABLE_PART)
RESERVED_NAMES = frozenset(
    'break case catch continue debugger default delete do else finally for function if in instanceof new return '
    'switch this throw try typeof var void while with class const enum export extends import super null true false '
    'implements interface let package private protected public static yield'.split())
PROP_RESERVED = ['return', 'in', 'if', 'new', 'class', 'null', 'true', 'this', 'function', 'typeof', 'do',
                 'default', 'delete', 'get', 'set', 'var', 'else', 'for', 'instanceof', 'void', 'enum']

NUMS_COMMON = ['0', '1', '2', '10', '42']
NUMS_ODD = ['1.5', '0.5', '.5', '1.', '0.', '1e3', '1E3', '1e+3', '1e-3', '1.5e10', '.5e1', '1.e2', '0x1f',
            '0XAB', '0x0', '017', '00', '07', '123456789012345678901234567890', '0.000001', '5e0']
STRS_COMMON = ['"s"', "'s'", '""', "''", '"a b"', "'use strict'"]
STRS_ODD = ['"\\n"', "'\\''", '"\\""', '"\\\\"', "'\\x41'", '"\\u0041"', "'\\0'", '"\\07"', "'\\101'",
            '"a\\\nb"', "'a\\\r\nb'", '"a\\\rb"', u'"a\\ b"', u'"\u00e9"', u'"\u65e5\u672c"', '"//"', "'/*'", '"*/"',
            '"\'"', "'\"'", '"\\b\\f\\r\\t\\v"', "'</script>'", '"\\a\\q"', '"a\\\n"', "';'", '"}"', "'{'", u'"a\\\u2028b"', u"'\\\u2029'",
            # characters that split lines for Python (str.splitlines) but are ordinary characters of an ES5 string
            '"a\\tb\x0cc"', "'\x0b\\\\'", u'"\x85\\n"', '"p\x1cq\x1dr\\x41"', '"\x0c"',
            # characters outside the BMP (two UTF-16 code units, one code point)
            u'"\U0001f600"', u"'a\U00020000b'"]
REGEX_COMMON = ['/re/', '/a/g', '/x/i']
REGEX_ODD = ['/[/]/', '/\\//', '/[\\]]/', '/a/gim', '/=/', '/=a/', '/ /', '/\\\\/', '/[a-z]+/', '/(?:x)/',
             '/a|b/', '/\\d{2,3}/', '/[^/]*/g', "/'/", '/"/', '/a*/', '/\\*/', '/.+?/']
ASSIGN_OPS = ['=', '=', '=', '+=', '-=', '*=', '/=', '%=', '<<=', '>>=', '>>>=', '&=', '|=', '^=']
BIN_LEVELS = [
    ['||'], ['&&'], ['|'], ['^'], ['&'],
    ['==', '!=', '===', '!=='],
    ['<', '>', '<=', '>=', 'instanceof', 'in'],
    ['<<', '>>', '>>>'],
    ['+', '-'],
    ['*', '/', '%'],
]
UNARY = ['delete', 'void', 'typeof', '++', '--', '+', '-', '~', '!']


class Config(object):
    """knobs that keep the search away from listed findings or bias it"""

    def __init__(self, **kw):
        self.odd_ids = True           # non-ASCII / keyword-prefix identifiers
        self.odd_literals = True
        self.regex = True
        self.div_weight = 1           # extra weight for `/`, `/=` and regex
        self.with_stmt = True
        self.func_decl_in_stmt = True
        self.getset = True
        self.getset_idents = True     # identifiers spelled get/set
        self.nesting_bias = False     # C20: prefer blocks/objects/switch
        self.scope_bias = False
        self.max_stmts = 4
        self.labels = True
        self.reserved_props = True
        for k, v in kw.items():
            if not hasattr(self, k):
                raise TypeError(k)
            setattr(self, k, v)


class Gen(object):
    def __init__(self, draw, cfg=None):
        self.draw = draw
        self.cfg = cfg or Config()
        self.fn_depth = 0
        self.loop_depth = 0
        self.label_stack = []

    # -- primitive draws --------------------------------------------------
    def pick(self, n):
        return self.draw(st.integers(0, n - 1))

    def chance(self, num, den=100):
        return self.draw(st.integers(0, den - 1)) < num

    def one(self, seq):
        return seq[self.pick(len(seq))]

    def weighted(self, options):
        """options: list of (weight, value); index 0 should be the simplest"""
        total = sum(w for w, _ in options)
        r = self.pick(total)
        for w, v in options:
            if r < w:
                return v
            r -= w
        return options[-1][1]

    # -- terminals ---------------------------------------------------------
    def ident_name(self):
        c = self.cfg
        if c.odd_ids and self.chance(4):
            # compositional spelling: IdentifierStart x IdentifierPart classes (7.6) in every order
            name = self.one(ID_START_CLASSES[self.pick(len(ID_START_CLASSES))])
            for _ in range(1 + self.pick(3)):
                name += self.one(ID_PART_CLASSES[self.pick(len(ID_PART_CLASSES))])
            if name in RESERVED_NAMES or (not c.getset_idents and name in ('get', 'set')):
                name += '_'
            return name
        if c.odd_ids and self.chance(20):
            name = self.one(IDS_ODD)
            if not c.getset_idents and name in ('get', 'set'):
                name = 'a'
            return name
        return self.one(IDS_COMMON)

    def ident(self):
        name = self.ident_name()
        return ('Ident', name), [Tk(name, 'id')]

    def number(self):
        if self.cfg.odd_literals and self.chance(35):
            if self.chance(50):
                s = self.one(NUMS_ODD)
            else:
                # compositional spelling: DecimalLiteral forms x ExponentPart forms (7.8.3)
                ip = self.one(['0', '1', '7', '10', '42', '900'])
                frac = self.one(['', '5', '05', '125'])
                form = self.pick(4)
                if form == 0:
                    mant = ip
                elif form == 1:
                    mant = ip + '.' + frac
                elif form == 2:
                    mant = '.' + (frac or '5')
                else:
                    mant = ip + '.'
                exp = ''
                if self.chance(50):
                    exp = self.one(['e', 'E']) + self.one(['', '+', '-']) + self.one(['0', '1', '7', '10', '007'])
                s = mant + exp
        else:
            s = self.one(NUMS_COMMON)
        return ('Num', s), [Tk(s, 'num')]

    def string(self):
        s = self.one(STRS_ODD) if (self.cfg.odd_literals and self.chance(35)) else self.one(STRS_COMMON)
        return ('Str', s), [Tk(s, 'str')]

    def regex(self):
        s = self.one(REGEX_ODD) if (self.cfg.odd_literals and self.chance(40)) else self.one(REGEX_COMMON)
        return ('Regex', s), [Tk(s, 're')]

    def prop_ident(self):
        if self.cfg.reserved_props and self.chance(15):
            name = self.one(PROP_RESERVED)
            kind = 'kw' if name in ref_es5.RESERVED else 'id'
            return ('PropIdent', name), [Tk(name, kind)]
        name = self.ident_name()
        return ('PropIdent', name), [Tk(name, 'id')]

    def prop_name(self):
        k = self.weighted([(6, 0), (2, 1), (2, 2)])
        if k == 0:
            return self.prop_ident()
        if k == 1:
            return self.string()
        return self.number()

    # -- expressions -------------------------------------------------------
    def expression(self, fuel, noin=False, nobf=False):
        t, toks = self.assignment(fuel, noin, nobf)
        while fuel > 1 and self.chance(8):
            r, rt = self.assignment(fuel - 2, noin, False)
            t = ('Comma', t, r)
            toks = toks + [P(',')] + rt
            fuel -= 2
        return t, toks

    def assignment(self, fuel, noin=False, nobf=False):
        if fuel > 0 and self.chance(18):
            l, lt = self.lhs(fuel - 1, nobf)
            op = self.one(ASSIGN_OPS)
            if op == '/=' and not self.cfg.div_weight:
                op = '='
            r, rt = self.assignment(fuel - 1, noin, False)
            return ('Assign', op, l, r), lt + [P(op)] + rt
        return self.conditional(fuel, noin, nobf)

    def conditional(self, fuel, noin=False, nobf=False):
        if fuel > 1 and self.chance(10):
            c, ct = self.binary(fuel - 2, 0, noin, nobf)
            a, at = self.assignment(fuel - 2, False, False)
            b, bt = self.assignment(fuel - 2, noin, False)
            return ('Cond', c, a, b), ct + [P('?')] + at + [P(':')] + bt
        return self.binary(fuel, 0, noin, nobf)

    def binary(self, fuel, level, noin=False, nobf=False):
        if level >= len(BIN_LEVELS):
            return self.unary(fuel, nobf)
        # decide how many operators of this level to chain (left associative)
        if fuel <= 0:
            return self.unary(fuel, nobf)
        n = 0
        p = 7 + (6 * self.cfg.div_weight if level == 9 else 0)
        while n < 3 and fuel - n > 0 and self.chance(p):
            n += 1
        if n == 0:
            return self.binary(fuel, level + 1, noin, nobf)
        sub = fuel - 1 - n
        t, toks = self.binary(sub, level + 1, noin, nobf)
        for _ in range(n):
            ops = BIN_LEVELS[level]
            if noin and 'in' in ops:
                ops = [o for o in ops if o != 'in']
            op = self.one(ops)
            if level == 9 and self.cfg.div_weight > 1 and self.chance(50):
                op = '/'
            r, rt = self.binary(sub, level + 1, noin, False)
            t = ('Binary', op, t, r)
            toks = toks + [K(op) if op in ('in', 'instanceof') else P(op)] + rt
        return t, toks

    def unary(self, fuel, nobf=False):
        if fuel > 0 and self.chance(14):
            op = self.one(UNARY)
            v, vt = self.unary(fuel - 1, False)
            return ('Unary', op, v), [K(op) if op.isalpha() else P(op)] + vt
        return self.postfix(fuel, nobf)

    def postfix(self, fuel, nobf=False):
        t, toks = self.lhs(fuel, nobf)
        if self.chance(6):
            op = self.one(['++', '--'])
            return ('Postfix', op, t), toks + [P(op, 'nolt')]
        return t, toks

    def arguments(self, fuel):
        n = self.weighted([(5, 0), (4, 1), (2, 2), (1, 3)]) if fuel > 0 else 0
        args, toks = [], [P('(')]
        for i in range(n):
            a, at = self.assignment(fuel - 1, False, False)
            args.append(a)
            if i:
                toks.append(P(','))
            toks += at
        toks.append(P(')'))
        return ('Args', tuple(args)), toks

    def member(self, fuel, nobf, allow_call):
        """MemberExpression (allow_call False) or CallExpression/MemberExpression chain"""
        k = 0
        if fuel > 0:
            k = self.weighted([(8, 0), (5, 1), (2, 2)] if self.cfg.nesting_bias else [(16, 0), (2, 1), (2, 2)])
        if k == 1 and not nobf:
            t, toks = self.func_expr(fuel - 1)
        elif k == 2:
            inner, it = self.member(fuel - 1, False, False)
            a, at = self.arguments(fuel - 1)
            t, toks = ('New', inner, a), [K('new')] + it + at
        else:
            t, toks = self.primary(fuel, nobf)
        n = 0
        while fuel - n > 0 and n < 4 and self.chance(22):
            n += 1
            s = self.weighted([(5, 0), (3, 1), (4 if allow_call else 0, 2)])
            if s == 0:
                pn, pt = self.prop_ident()
                t, toks = ('Dot', t, pn), toks + [P('.')] + pt
            elif s == 1:
                e, et = self.expression(fuel - 1 - n, False, False)
                t, toks = ('Index', t, e), toks + [P('[')] + et + [P(']')]
            else:
                a, at = self.arguments(fuel - 1 - n)
                t, toks = ('Call', t, a), toks + at
        return t, toks

    def lhs(self, fuel, nobf=False):
        if fuel > 0 and self.chance(5):
            # NewExpression without arguments: new^k MemberExpression
            k = 1 + (1 if self.chance(25) else 0)
            inner, it = self.member(fuel - 1, False, False)
            t, toks = inner, it
            for _ in range(k):
                t = ('New', t, None)
                toks = [K('new')] + toks
            return t, toks
        return self.member(fuel, nobf, True)

    def primary(self, fuel, nobf=False):
        c = self.cfg
        opts = [(10, 'id'), (4, 'num'), (3, 'str'), (1, 'this'), (1, 'null'), (1, 'bool')]
        if c.regex:
            opts.append((1 + 2 * c.div_weight, 're'))
        if fuel > 0:
            opts += [(3, 'paren'), (2, 'array')]
            if not nobf:
                opts.append((3 if c.nesting_bias else 2, 'object'))
        k = self.weighted(opts)
        if k == 'id':
            return self.ident()
        if k == 'num':
            return self.number()
        if k == 'str':
            return self.string()
        if k == 're':
            return self.regex()
        if k == 'this':
            return ('This',), [K('this')]
        if k == 'null':
            return ('Null',), [K('null')]
        if k == 'bool':
            v = self.one(['true', 'false'])
            return ('Bool', v), [K(v)]
        if k == 'paren':
            if self.chance(12):
                # a grouping whose content would bind differently without it: `(new X).p` is not `new X.p`
                inner, it = self.member(fuel - 1, False, False)
                e, et = ('New', inner, None), [K('new')] + it
            else:
                e, et = self.expression(fuel - 1, False, False)
            if e[0] == 'Paren':
                return e, [P('(')] + et + [P(')')]  # nested groupings collapse (stated normalisation)
            return ('Paren', e), [P('(')] + et + [P(')')]
        if k == 'array':
            return self.array(fuel - 1)
        return self.object(fuel - 1)

    def array(self, fuel):
        items, toks = [], [P('[')]
        n = self.weighted([(3, 0), (4, 1), (3, 2), (2, 3), (1, 4)])
        for i in range(n):
            # optional elision before the element
            e = self.weighted([(8, 0), (2, 1), (1, 2)])
            if e:
                items.append(('Elision', str(e)))
                toks += [P(',')] * e
            if fuel > 0 and self.chance(18):
                a, at = self.array(fuel - 1)  # arrays nested directly in arrays (holes next to brackets)
            else:
                a, at = self.assignment(fuel - 1, False, False)
            items.append(a)
            toks += at
            if i < n - 1:
                toks.append(P(','))
        if n:
            tail = self.weighted([(7, 0), (2, 1), (1, 2), (1, 3)])
            # tail==1: just the separator comma (no elision); tail>=2: separator + (tail-1) elision commas
            if tail:
                toks.append(P(','))
                if tail > 1:
                    items.append(('Elision', str(tail - 1)))
                    toks += [P(',')] * (tail - 1)
        else:
            e = self.weighted([(6, 0), (2, 1), (1, 2), (1, 3)])
            if e:
                items.append(('Elision', str(e)))
                toks += [P(',')] * e
        toks.append(P(']'))
        return ('Array', tuple(items)), toks

    def object(self, fuel):
        props, toks = [], [P('{')]
        n = self.weighted([(4, 0), (4, 1), (3, 2), (1, 3)]) if fuel >= 0 else 0
        for i in range(n):
            k = self.weighted([(8, 0), (1, 1), (1, 2)]) if (self.cfg.getset and fuel > 0) else 0
            if k == 0:
                pn, pt = self.prop_name()
                v, vt = self.assignment(fuel - 1, False, False)
                props.append(('Init', pn, v))
                toks += pt + [P(':')] + vt
            elif k == 1:
                pn, pt = self.prop_name()
                body, bt = self.function_body(fuel - 1)
                props.append(('Getter', pn, body))
                toks += [Tk('get', 'id')] + pt + [P('('), P(')')] + bt
            else:
                pn, pt = self.prop_name()
                param = self.ident_name()
                body, bt = self.function_body(fuel - 1)
                props.append(('Setter', pn, ('Ident', param), body))
                toks += [Tk('set', 'id')] + pt + [P('('), Tk(param, 'id'), P(')')] + bt
            if i < n - 1:
                toks.append(P(','))
        if n and self.chance(15):
            toks.append(P(','))
        toks.append(P('}'))
        return ('Object', tuple(props)), toks

    def params(self):
        n = self.weighted([(5, 0), (4, 1), (2, 2), (1, 3)])
        ps, toks = [], [P('(')]
        for i in range(n):
            name = self.ident_name()
            ps.append(('Ident', name))
            if i:
                toks.append(P(','))
            toks.append(Tk(name, 'id'))
        toks.append(P(')'))
        return tuple(ps), toks

    def function_body(self, fuel):
        self.fn_depth += 1
        saved = (self.loop_depth, self.label_stack)
        self.loop_depth, self.label_stack = 0, []
        body, toks = self.statement_list(fuel, closing=True)
        self.loop_depth, self.label_stack = saved
        self.fn_depth -= 1
        return body, [P('{')] + toks + [P('}')]

    def func_expr(self, fuel):
        name = None
        toks = [K('function')]
        if self.chance(40):
            n = self.ident_name()
            name = ('Ident', n)
            toks.append(Tk(n, 'id'))
        ps, pt = self.params()
        body, bt = self.function_body(fuel)
        return ('FuncExpr', name, ps, body), toks + pt + bt

    def func_decl(self, fuel):
        n = self.ident_name()
        ps, pt = self.params()
        body, bt = self.function_body(fuel)
        return ('FuncDecl', ('Ident', n), ps, body), [K('function'), Tk(n, 'id')] + pt + bt

    # -- statements ----------------------------------------------------------
    def statement_list(self, fuel, closing=False, top=False):
        n = 0
        if fuel > 0:
            n = self.weighted([(2, 0), (5, 1), (4, 2), (2, 3), (1, 4)])
            n = min(n, self.cfg.max_stmts)
            if self.cfg.nesting_bias and n == 0 and self.chance(70):
                n = 1
        elif self.chance(50):
            n = 1
        stmts, toks = [], []
        for _ in range(n):
            if (top or self.fn_depth) and fuel > 0 and self.chance(8):
                s, s_t = self.func_decl(fuel - 1)
            else:
                s, s_t = self.statement(fuel - 1)
            stmts.append(s)
            toks += s_t
        return tuple(stmts), toks

    def block(self, fuel):
        body, toks = self.statement_list(fuel)
        return ('Block', body), [P('{')] + toks + [P('}')]

    def var_decls(self, fuel, noin):
        n = self.weighted([(6, 1), (3, 2), (1, 3)])
        decls, toks = [], []
        for i in range(n):
            name = self.ident_name()
            init = None
            dt = [Tk(name, 'id')]
            if self.chance(60):
                init, it = self.assignment(fuel - 1, noin, False)
                dt += [P('=')] + it
            decls.append(('VarDecl', ('Ident', name), init))
            if i:
                toks.append(P(','))
            toks += dt
        return tuple(decls), toks

    def statement(self, fuel, noshortif=False):
        """noshortif: the statement is the `then` branch of an if that has an else, so it
        must not end in an if without else (StatementNoShortIf of the classic grammar)"""
        c = self.cfg
        if fuel <= 0:
            k = self.weighted([(8, 'expr'), (2, 'var'), (1, 'empty'), (1, 'ret'), (1, 'brk'), (1, 'dbg')])
        else:
            nb = 3 if c.nesting_bias else 1
            opts = [(12 // nb, 'expr'), (5, 'var'), (2, 'empty'), (4 * nb, 'block'), (5 * nb, 'if'), (2, 'do'),
                    (2, 'while'), (4, 'for'), (3, 'forin'), (2, 'ret'), (2, 'brk'), (2, 'throw'),
                    (3 * nb, 'switch'), (3 * nb, 'try'), (1, 'dbg')]
            if c.with_stmt:
                opts.append((1, 'with'))
            if c.labels:
                opts.append((2, 'label'))
            if c.func_decl_in_stmt:
                opts.append((1, 'fdecl'))
            k = self.weighted(opts)
        term = P(';', 'term')
        if k == 'expr':
            e, et = self.expression(fuel, False, True)
            return ('Expr', e), et + [term]
        if k == 'var':
            d, dt = self.var_decls(fuel, False)
            return ('Var', d), [K('var')] + dt + [term]
        if k == 'empty':
            return ('Empty',), [P(';', 'empty')]
        if k == 'dbg':
            return ('Debugger',), [K('debugger'), term]
        if k == 'block':
            return self.block(fuel - 1)
        if k == 'ret':
            if self.chance(30):
                return ('Return', None), [K('return'), term]
            e, et = self.expression(fuel - 1, False, False)
            et[0] = Tk(et[0].text, et[0].kind, et[0].flags | {'nolt'})
            return ('Return', e), [K('return')] + et + [term]
        if k == 'throw':
            e, et = self.expression(fuel - 1, False, False)
            et[0] = Tk(et[0].text, et[0].kind, et[0].flags | {'nolt'})
            return ('Throw', e), [K('throw')] + et + [term]
        if k == 'brk':
            kind = self.one(['Break', 'Continue'])
            kw = kind.lower()
            if c.labels and self.chance(30):
                lab = self.one(LABELS)
                return (kind, ('Ident', lab)), [K(kw), Tk(lab, 'id', ['nolt']), term]
            return (kind, None), [K(kw), term]
        if k == 'if':
            t, tt = self.expression(fuel - 1, False, False)
            has_else = noshortif or self.chance(45)
            if has_else:
                a, at = self.statement(fuel - 1, True)
                b, bt = self.statement(fuel - 1, noshortif)
                return ('If', t, a, b), [K('if'), P('(')] + tt + [P(')')] + at + [K('else')] + bt
            a, at = self.statement(fuel - 1, False)
            return ('If', t, a, None), [K('if'), P('(')] + tt + [P(')')] + at
        if k == 'do':
            b, bt = self.statement(fuel - 1)
            t, tt = self.expression(fuel - 1, False, False)
            return ('DoWhile', b, t), [K('do')] + bt + [K('while'), P('(')] + tt + [P(')'), term]
        if k == 'while':
            t, tt = self.expression(fuel - 1, False, False)
            b, bt = self.statement(fuel - 1, noshortif)
            return ('While', t, b), [K('while'), P('(')] + tt + [P(')')] + bt
        if k == 'with':
            t, tt = self.expression(fuel - 1, False, False)
            b, bt = self.statement(fuel - 1, noshortif)
            return ('With', t, b), [K('with'), P('(')] + tt + [P(')')] + bt
        if k == 'for':
            toks = [K('for'), P('(')]
            init = None
            ik = self.weighted([(3, 0), (4, 1), (4, 2)])
            if ik == 1:
                init, it = self.expression(fuel - 1, True, False)
                toks += it
            elif ik == 2:
                d, dt = self.var_decls(fuel - 1, True)
                init = ('Var', d)
                toks += [K('var')] + dt
            toks.append(P(';', 'forsep'))
            test = upd = None
            if self.chance(65):
                test, tt = self.expression(fuel - 1, False, False)
                toks += tt
            toks.append(P(';', 'forsep'))
            if self.chance(60):
                upd, ut = self.expression(fuel - 1, False, False)
                toks += ut
            toks.append(P(')'))
            b, bt = self.statement(fuel - 1, noshortif)
            return ('For', init, test, upd, b), toks + bt
        if k == 'forin':
            ik = self.weighted([(4, 0), (4, 1), (1, 2)])
            toks = [K('for'), P('(')]
            if ik == 0:
                left, lt = self.lhs(fuel - 1, False)
                toks += lt
            else:
                name = self.ident_name()
                init = None
                toks += [K('var'), Tk(name, 'id')]
                if ik == 2:
                    init, it = self.assignment(fuel - 1, True, False)
                    toks += [P('=')] + it
                left = ('VarDecl', ('Ident', name), init)
            r, rt = self.expression(fuel - 1, False, False)
            b, bt = self.statement(fuel - 1, noshortif)
            return ('ForIn', left, r, b), toks + [K('in')] + rt + [P(')')] + bt
        if k == 'label':
            lab = self.one(LABELS)
            b, bt = self.statement(fuel - 1, noshortif)
            return ('Label', ('Ident', lab), b), [Tk(lab, 'id'), P(':')] + bt
        if k == 'switch':
            d, dt = self.expression(fuel - 1, False, False)
            n = self.weighted([(1, 0), (3, 1), (3, 2), (2, 3)])
            default_at = self.pick(n + 1) if self.chance(60) else -1
            clauses, toks = [], [K('switch'), P('(')] + dt + [P(')'), P('{')]
            for i in range(n + 1):
                if i == default_at:
                    body, bt = self.statement_list(fuel - 2) if self.chance(70) else ((), [])
                    clauses.append(('Default', body))
                    toks += [K('default'), P(':')] + bt
                if i < n:
                    t, tt = self.expression(fuel - 2, False, False)
                    body, bt = self.statement_list(fuel - 2) if self.chance(70) else ((), [])
                    clauses.append(('Case', t, body))
                    toks += [K('case')] + tt + [P(':')] + bt
            toks.append(P('}'))
            return ('Switch', d, tuple(clauses)), toks
        if k == 'try':
            b, bt = self.block(fuel - 1)
            kind = self.weighted([(4, 0), (2, 1), (3, 2)])
            catch = fin = None
            toks = [K('try')] + bt
            if kind in (0, 2):
                name = self.ident_name()
                cb, cbt = self.block(fuel - 1)
                catch = ('Catch', ('Ident', name), cb)
                toks += [K('catch'), P('('), Tk(name, 'id'), P(')')] + cbt
            if kind in (1, 2):
                fb, fbt = self.block(fuel - 1)
                fin = ('Finally', fb)
                toks += [K('finally')] + fbt
            return ('Try', b, catch, fin), toks
        if k == 'fdecl':
            return self.func_decl(fuel - 1)
        raise AssertionError(k)

    def program(self, fuel):
        body, toks = self.statement_list(fuel, top=True)
        return ('Program', body), toks


# ---------------------------------------------------------------------------
# rendering

WS_SIMPLE = [' ']
WS_VARIED = [' ', '  ', '\t', ' \t ', '\x0b', '\x0c', u'\xa0', u'\ufeff', u'\u2003', u'\u3000']
LT_BASIC = ['\n']
LT_ALL = ['\n', '\r', '\r\n', u'\u2028', u'\u2029', '\n\n', ' \n  ', u'\u2028\n']
LT_NO_LSPS = ['\n', '\r', '\r\n', '\n\n', ' \n  ', '\r\n\t']
COMMENTS_INLINE = ['/*c*/', '/**/', '/* a * b / */', u'/*\u00e9*/', '/*//*/', '/* t */', '/*\t*/', '/* */',
                   '/*a\x0cb*/', u'/*\x0b\x85*/',
                   # text that is not in Unicode normalisation form C (ES5 6: not to be normalised)
                   u'/*e\u0301 A\u030a*/', u'/*\u212b*/']
COMMENTS_ML = ['/*c\nc*/', '/*\n*/', '/*\r\n * x\r\n */', u'/*a\u2028b*/', u'/*\u2029*/', '/*\r*/', '/*a\rb*/',
               '/*\n * a\n * b\n * c\n */', '/*\x0c\n\x0b*/', u'/*o\u0302\u0323\n*/']
COMMENTS_LINE = ['//c\n', '//\n', '// a /* b\n', u'//\u00e9\r\n', '//x\r', u'//c\u2028', u'// d\u2029',
                 '// t  \n', '//\t\n', '// \n', u'//u\u00a0\n', '//v \t\r\n', '//  lead\n', '// page\x0c\n', u'//w\x85\n', '//\x0b \n',
                 u'//n\u0303o\n']

_join_cache = {}


def can_join(a, b):
    """may tokens a and b be written with nothing between them?  Decided by re-lexing
    a.text+b.text with the reference lexer under each token's own goal symbol."""
    key = (a.text, a.kind, b.text, b.kind)
    r = _join_cache.get(key)
    if r is None:
        r = _can_join(a, b)
        if len(_join_cache) < 200000:
            _join_cache[key] = r
    return r


def _can_join(a, b):
    text = a.text + b.text
    lx = ref_es5.Lexer(text)
    try:
        t1 = lx.next(a.kind == 're')
        if t1.text != a.text or t1.start != 0:
            return False
        if lx.pos != len(a.text):
            return False
        t2 = lx.next(b.kind == 're')
        if t2.text != b.text or t2.start != len(a.text) or t2.nl_before:
            return False
        if len(lx.comments):
            return False
        t3 = lx.next(False)
        return t3.type == 'eof'
    except ref_es5.RefSyntaxError:
        return False


class Layout(object):
    """level 0: minimal (nothing where possible, else one space)
       level 1: single spaces everywhere
       level 2: varied white space and LF line breaks
       level 3: hostile - every line terminator kind, comments of all kinds"""

    def __init__(self, level=1, lsps=True, comments=True, min_join=False):
        self.level = level
        self.lsps = lsps
        self.comments = comments


ASI_SEPS = ['\n', '\r', '\r\n', u'\u2028', u'\u2029', ' \n  ', '//c\n', ' // c\r\n', '/*c*/\n', '\n/*c*/', '\n /*c*/ ',
            '/*a\nb*/', '/*a\r\nb*/ ', '\n//c\n', '/**/\n/**/', u'/*\u2028*/', '\n\n']


def sep_class(sep):
    """coarse class of a separator, for evidence histograms"""
    has_lt = any(c in sep for c in u'\n\r\u2028\u2029')
    if '/*' in sep or '//' in sep:
        if not has_lt:
            return 'comment'
        stripped = sep
        if sep.lstrip(' \t').startswith(('/*', '//')):
            return 'comment_then_or_containing_lt'
        return 'lt_then_comment'
    if has_lt:
        for name, c in (('crlf', '\r\n'), ('lf', '\n'), ('cr', '\r'), ('ls', u'\u2028'), ('ps', u'\u2029')):
            if c in sep:
                return name
    return 'none' if sep == '' else 'space'


def render(draw, toks, layout, drop=None, seps_out=None):
    """Render a token list.  `drop`: set of token indexes (flag 'term') to omit; after an
    omitted terminator the separator is drawn from ASI_SEPS (contains a line terminator)
    unless the next token is `}` or the end of input (C04).  Returns text and the list of
    (token index, offset) actually written."""
    out = []
    offsets = []
    pos = 0
    prev = None
    level = layout.level
    lts = LT_ALL if layout.lsps else LT_NO_LSPS
    dropped_before = False
    for i, tk in enumerate(toks):
        if drop and i in drop:
            dropped_before = True
            continue
        if prev is not None and dropped_before and not (tk.text == '}' and tk.kind == 'p'):
            sep = ASI_SEPS[draw(st.integers(0, len(ASI_SEPS) - 1))]
            if not layout.lsps and (u'\u2028' in sep or u'\u2029' in sep):
                sep = '\n'
            if sep[:1] == '/' and prev.text.endswith('/'):
                sep = ' ' + sep
            if seps_out is not None:
                seps_out.append((prev, sep, tk))
            out.append(sep)
            pos += len(sep)
            out.append(tk.text)
            offsets.append((i, pos))
            pos += len(tk.text)
            prev = tk
            dropped_before = False
            continue
        dropped_before = False
        if prev is not None:
            nolt = 'nolt' in tk.flags
            joinable = can_join(prev, tk)
            if level == 0:
                sep = '' if joinable else ' '
            elif level == 1:
                sep = ' '
            else:
                r = draw(st.integers(0, 99))
                if level == 2:
                    if r < 45:
                        sep = ' '
                    elif r < 60 and joinable:
                        sep = ''
                    elif r < 80 or nolt:
                        sep = WS_VARIED[draw(st.integers(0, len(WS_VARIED) - 1))]
                    else:
                        sep = '\n' + ' ' * draw(st.integers(0, 4))
                else:
                    if r < 30:
                        sep = ' '
                    elif r < 42 and joinable:
                        sep = ''
                    elif r < 55:
                        sep = WS_VARIED[draw(st.integers(0, len(WS_VARIED) - 1))]
                    elif r < 75 and not nolt:
                        sep = lts[draw(st.integers(0, len(lts) - 1))]
                    elif r < 85 and layout.comments:
                        c = COMMENTS_INLINE[draw(st.integers(0, len(COMMENTS_INLINE) - 1))]
                        sep = [c, ' ' + c + ' ', c + ' ', ' ' + c][draw(st.integers(0, 3))]
                    elif r < 93 and layout.comments and not nolt:
                        sep = COMMENTS_LINE[draw(st.integers(0, len(COMMENTS_LINE) - 1))]
                        if not layout.lsps and (u'\u2028' in sep or u'\u2029' in sep):
                            sep = '//c\n'
                        sep = (' ' if draw(st.booleans()) else '') + sep
                    elif layout.comments and not nolt:
                        sep = COMMENTS_ML[draw(st.integers(0, len(COMMENTS_ML) - 1))]
                        if not layout.lsps and (u'\u2028' in sep or u'\u2029' in sep):
                            sep = '/*c\nc*/'
                    else:
                        sep = ' '
                # a separator that ends with `/`... cannot fuse: all comment separators end in */ or LT
                if sep.endswith('/') and tk.text.startswith(('/', '*')) and False:
                    sep += ' '
            # `a` + `/*c*/` + `/re/` is fine; but prev `/` followed by comment start would form `//*c*/`
            if sep[:1] == '/' and prev.text.endswith('/'):
                sep = ' ' + sep
            if sep == '' and not joinable:
                sep = ' '
            out.append(sep)
            pos += len(sep)
        out.append(tk.text)
        offsets.append((i, pos))
        pos += len(tk.text)
        prev = tk
    text = ''.join(out)
    return text, offsets


def program_strategy(cfg=None, max_fuel=6, layout_levels=(0, 1, 2, 3), lsps=True, comments=True, min_fuel=1):
    """Strategy producing dict(tree, toks, text, layout) with every terminator explicit."""
    @st.composite
    def strat(draw):
        fuel = draw(st.integers(min_fuel, max_fuel))
        g = Gen(draw, cfg)
        tree, toks = g.program(fuel)
        level = layout_levels[draw(st.integers(0, 9999)) % len(layout_levels)]
        # trailing / leading layout
        text, offsets = render(draw, toks, Layout(level, lsps=lsps, comments=comments))
        if level >= 2:
            k = draw(st.integers(0, 9))
            lead = ''
            if k == 0:
                lead = '\n'
            elif k == 1:
                text = text + '\n'
            elif k == 2 and comments:
                lead = '/*lead*/'
                text = text + ' //tail'
            elif k == 3:
                lead = u'\ufeff'
                text = text + '  '
            if lead:
                text = lead + text
                offsets = [(i, off + len(lead)) for i, off in offsets]
        return {'tree': tree, 'toks': toks, 'text': text, 'level': level, 'offsets': offsets}
    return strat()


def array_shapes(max_items=3):
    """enumerated family of (nested) array literal shapes with holes in every position"""
    import itertools
    slots = ['a', '', '[1,,]', '[,]', '[]', '[b,[,,c,],]', '[[,],]']
    for n in range(0, max_items + 1):
        for combo in itertools.product(slots, repeat=n):
            body = ','.join(combo)
            yield 'x = [%s];' % body
            if n:
                yield 'x = [%s,];' % body


def long_lists(n):
    """programs whose size comes from the *length* of one sibling list (not from nesting): n statements,
    declarations, arguments, parameters, properties, elements, clauses, operands"""
    r = range(n)
    yield 'statements', ' '.join('s%d = %d;' % (i, i) for i in r)
    yield 'block', '{ ' + ' '.join('b%d();' % i for i in r) + ' }'
    yield 'function_body', 'function f() { ' + ' '.join('x%d++;' % i for i in r) + ' return x0; }'
    yield 'var_declarations', 'var ' + ', '.join('v%d = %d' % (i, i) for i in r) + ';'
    yield 'arguments', 'f(' + ', '.join('a%d' % i for i in r) + ');'
    yield 'parameters', 'function g(' + ', '.join('p%d' % i for i in r) + ') { return p0; }'
    yield 'properties', 'o = {' + ', '.join('k%d: %d' % (i, i) for i in r) + '};'
    yield 'elements', 'a = [' + ', '.join('%d' % i for i in r) + '];'
    yield 'cases', 'switch (x) { ' + ' '.join('case %d: c%d(); break;' % (i, i) for i in r) + ' default: d(); }'
    # left-nested binary forms are deep trees, not long lists: bounded
    yield 'comma_operands', 'x = (' + ', '.join('e%d' % i for i in range(min(n, 400))) + ');'
    yield 'member_chain', 'y = r' + ''.join('.m%d' % i for i in range(min(n, 400))) + ';'
    yield 'binary_chain', 'z = ' + ' + '.join('t%d' % i for i in range(min(n, 400))) + ';'
