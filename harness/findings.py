# -*- coding: utf-8 -*-
"""Known-finding machinery for the parser-side properties (DESIGN.md 3.7).

A listed finding is kept out of the search *by construction*: each has a narrow
"neutraliser" that recognises its shape in the reference token stream of an input
and rewrites just that shape away (counted).  A failing case is attributed to
listed findings only if (a) at least one neutraliser applies and (b) the
neutralised text passes the very same oracle.  If it still fails, the neutralised
text is reported as a new violation.  Over-acceptance findings (calmjs accepts a
text the reference rejects) cannot be neutralised through the reference token
stream; they are recognised by narrow predicates over calmjs's own tree.
"""
import re

from harness import ref_es5

LT = ref_es5.LT
HEADER_KINDS = ('If', 'While', 'For', 'ForIn', 'With')
RESTRICTED_KW = ('return', 'break', 'continue', 'throw')


def walk(n):
    """pre-order over reference nodes"""
    if isinstance(n, ref_es5.N):
        yield n
        for f in n.fields:
            for x in walk(f):
                yield x
    elif isinstance(n, list):
        for y in n:
            for x in walk(y):
                yield x


class Src(object):
    """editable token/gap view of a text the reference accepted"""

    def __init__(self, ref):
        t = ref.text
        self.ref = ref
        self.toks = [k.text for k in ref.tokens]
        self.gaps = []
        pos = 0
        for k in ref.tokens:
            self.gaps.append(t[pos:k.start])
            pos = k.end
        self.gaps.append(t[pos:])

    def text(self):
        out = []
        for g, k in zip(self.gaps, self.toks):
            out.append(g)
            out.append(k)
        out.append(self.gaps[-1])
        return ''.join(out)


def has_lt(s):
    return any(c in LT for c in s)


def has_comment(s):
    return '/*' in s or '//' in s


def plain_gap(g):
    """the simplest gap with the same line-break status"""
    return '\n' if has_lt(g) else ' '


# ---------------------------------------------------------------------------
# neutralisers: f(ref, src) -> number of places rewritten

def _ws_only(g):
    return g != '' and not has_comment(g)


def n_getset_ident(ref, src):
    """identifier spelled get/set (not an accessor keyword) followed by white space, a token that
    could be a property name and `(`: still lexed as accessor keyword (the other shapes were fixed
    in eb64c8b)"""
    acc = set(n.first for n in walk(ref.root) if n.kind in ('Getter', 'Setter'))
    n = 0
    toks = ref.tokens
    for i, k in enumerate(toks):
        if k.type == 'ident' and k.text in ('get', 'set') and i not in acc and i + 2 < len(toks):
            if _ws_only(src.gaps[i + 1]) and toks[i + 1].type in ('ident', 'keyword', 'str', 'num') \
                    and toks[i + 2].text == '(' and not has_comment(src.gaps[i + 2]):
                src.toks[i] = 'ge_' if k.text == 'get' else 'se_'
                n += 1
    return n


def n_accessor_gap(ref, src):
    """a comment between the accessor keyword and its property name, or between the name and `(`
    (plain white space of any length was fixed in eb64c8b)"""
    n = 0
    for node in walk(ref.root):
        if node.kind in ('Getter', 'Setter'):
            for gi, repl in ((node.first + 1, ' '), (node.first + 2, '')):
                if has_comment(src.gaps[gi]):
                    src.gaps[gi] = repl
                    n += 1
    return n


def _prop_tokens(ref):
    out = set()
    for node in walk(ref.root):
        if node.kind == 'PropIdent':
            out.add(node.first)
    return out


def n_slash_after_reserved_prop(ref, src):
    """reserved word used as property name directly followed by a division"""
    n = 0
    for i in _prop_tokens(ref):
        k = ref.tokens[i]
        if k.type == 'keyword' and k.text not in ('this', 'null', 'true', 'false') and i + 1 < len(ref.tokens):
            nx = ref.tokens[i + 1]
            if nx.type == 'punct' and nx.text in ('/', '/='):
                src.toks[i] = 'p_'
                n += 1
    return n


def _headers(ref):
    """(keyword index, lparen index, rparen index) of if/while/for/with headers"""
    out = []
    for node in walk(ref.root):
        if node.kind in HEADER_KINDS:
            body = node.fields[-1] if node.kind != 'If' else node.fields[1]
            out.append((node.first, node.first + 1, body.first - 1, node.kind))
        elif node.kind == 'DoWhile':
            pass
    return out


def n_regex_after_funcdecl(ref, src):
    """statement starting with a regex literal right after the `}` of a function declaration"""
    n = 0
    for node in walk(ref.root):
        if node.kind == 'FuncDecl' and node.last + 1 < len(ref.tokens):
            nx = ref.tokens[node.last + 1]
            if nx.type == 'regex':
                src.toks[node.last + 1] = 'r_'
                if src.gaps[node.last + 1] == '':
                    src.gaps[node.last + 1] = ' '
                n += 1
    return n


def n_asi_before_prefix_incdec(ref, src):
    """semicolon inserted (by a line break) before a prefix ++/-- that follows the `}` of an object
    literal or function expression (the other operand ends were fixed in 2093a2f)"""
    n = 0
    for s in ref.semis:
        if s['kind'] == 'inserted' and s.get('by') == 'newline' and s.get('before') in ('++', '--'):
            idx = _tok_index_at(ref, s['pos'])
            if idx is not None and idx > 0 and ref.tokens[idx - 1].text == '}':
                src.gaps[idx] = ';' + src.gaps[idx]
                n += 1
    return n


def n_ident_escape(ref, src):
    n = 0
    for i, k in enumerate(ref.tokens):
        if k.type == 'ident' and '\\' in k.text:
            src.toks[i] = k.name if k.name not in ref_es5.RESERVED else 'e_'
            n += 1
    return n


def _tok_index_at(ref, pos):
    for k in ref.tokens:
        if k.start == pos:
            return k.index
    return None


NEUTRALISERS = [
    ('c03.getset_ident_lexed_as_accessor', n_getset_ident),
    ('c03.accessor_keyword_gap', n_accessor_gap),
    ('c05.regex_after_funcdecl', n_regex_after_funcdecl),
    ('c04.asi_before_prefix_incdec', n_asi_before_prefix_incdec),
    ('c03.ident_unicode_escape', n_ident_escape),
]


def neutralise(ref, only=None):
    """-> (new text, {signature: count}) applying every (or the given) neutraliser"""
    src = Src(ref)
    applied = {}
    for sig, f in NEUTRALISERS:
        if only is not None and sig not in only:
            continue
        k = f(ref, src)
        if k:
            applied[sig] = k
    return src.text(), applied


# ---------------------------------------------------------------------------
# over-acceptance predicates (calmjs accepts, reference rejects)

def _leftmost(node):
    """leftmost leaf of a calmjs expression"""
    seen = 0
    while seen < 10000:
        seen += 1
        name = type(node).__name__
        if name in ('BinOp', 'Assign', 'Comma'):
            node = node.left
        elif name == 'Conditional':
            node = node.predicate
        elif name in ('DotAccessor', 'BracketAccessor'):
            node = node.node
        elif name == 'FunctionCall':
            node = node.identifier
        elif name == 'PostfixExpr':
            node = node.value
        else:
            return node
    return node


def over_acceptance_signature(text, failure, info):
    """narrow mechanism predicates for calmjs-accepts/reference-rejects cases"""
    from calmjs.parse.walkers import Walker
    tree = info.get('cnode')
    msg = failure.get('ref_msg', '')
    pos = failure.get('ref_pos', -1)
    if tree is None:
        return None
    nodes = list(Walker().walk(tree))
    if msg.startswith('identifier or digit directly after numeric literal'):
        return 'c03.number_followed_by_identifier'
    # postfix ++/-- separated from its operand by a line terminator (restricted production ignored)
    _part = info.get('ref_partial_tokens', ())
    incdec = dict((k.start, k) for i, k in enumerate(_part)
                  if k.type == 'punct' and k.text in ('++', '--') and k.nl_before and i and _part[i - 1].text == '}')
    if incdec:
        for n in nodes:
            if type(n).__name__ == 'PostfixExpr' and n.lexpos in incdec:
                return 'c04.asi_before_prefix_incdec'
    part = info.get('ref_partial_tokens', ())
    # expression statement starting with a function expression
    for n in nodes:
        if type(n).__name__ == 'ExprStatement':
            lm = _leftmost(n.expr)
            if type(lm).__name__ == 'FuncExpr':
                return 'c03.funcexpr_statement'
    return None


def classify_parse_failure(text, failure, info, rerun):
    """-> (signature or None, detail).  `rerun(text2)` must run the same oracle on another
    text and return its failure (None when it passes)."""
    kind = failure['kind']
    if kind == 'accept_diff_calmjs_accepts':
        return over_acceptance_signature(text, failure, info), {}
    ref = info.get('refobj')
    if ref is None:
        try:
            ref = ref_es5.parse(text)
        except ref_es5.RefSyntaxError:
            return None, {}
    text2, applied = neutralise(ref)
    if not applied or text2 == text:
        return None, {}
    if len(applied) > 1:
        # minimal attribution: does removing one shape alone suffice?
        for sig in sorted(applied):
            t1, a1 = neutralise(ref, only=(sig,))
            if t1 != text and rerun(t1) is None:
                return sig, {'neutralised': t1, 'applied': a1}
    f2 = rerun(text2)
    if f2 is None:
        return '+'.join(sorted(applied)), {'neutralised': text2, 'applied': applied}
    return None, {'neutralised': text2, 'applied': applied, 'still_fails': f2}
