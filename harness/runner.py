"""Runner: build, shard over worker processes, merge, findings, evidence, exit code.

Exit codes: 0 held (possibly with KNOWN-FINDING lines), 1 violation(s) not listed
in known_findings.json, 2 harness error.
"""
import argparse
import hashlib
import importlib
import json
import multiprocessing as mp
import os
import sys
import time
import traceback
from collections import Counter

from . import build

VERIF = os.path.dirname(os.path.dirname(os.path.abspath(__file__)))
NPROC = int(os.environ.get('VERIF_JOBS', '0')) or min(16, os.cpu_count() or 1)
MAX_UNKNOWN = 10


def h64(obj):
    return int.from_bytes(hashlib.blake2b(repr(obj).encode('utf-8', 'surrogatepass'),
                                          digest_size=8).digest(), 'big')


class Acc(object):
    """Per-shard accumulator; everything in it is plain data (picklable)."""

    def __init__(self, max_samples=6):
        self.evaluations = 0
        self.nontrivial = set()
        self.labels = Counter()
        self.samples = []
        self.big_sample = None
        self.failures = []
        self.known = Counter()
        self.excluded = Counter()
        self.skipped = Counter()
        self.extra = {}
        self.budget_hit = False
        self.max_samples = max_samples
        self._fail_keys = set()

    def case(self, key, nontrivial, sample=None):
        self.evaluations += 1
        if nontrivial:
            hk = h64(key)
            new = hk not in self.nontrivial
            self.nontrivial.add(hk)
            if new and sample is not None:
                if len(self.samples) < self.max_samples:
                    self.samples.append(sample)
                else:
                    size = len(repr(sample))
                    if self.big_sample is None or size > self.big_sample[0]:
                        if size < 4000:
                            self.big_sample = (size, sample)

    def label(self, name, n=1):
        self.labels[name] += n

    def fail(self, signature, case, detail, open_signatures=()):
        """Record a failing case.  `case` must be JSON-serialisable and
        sufficient for props.<id>.replay()."""
        if signature is not None and all(p in open_signatures for p in signature.split('+')):
            for p in signature.split('+'):
                self.known[p] += 1
            return
        key = (signature, detail.get('bucket') if isinstance(detail, dict) else None)
        n = sum(1 for f in self.failures if f['key'] == list(key))
        if n >= 3:
            # keep at most 3 witnesses per bucket, prefer small ones
            big = max((f for f in self.failures if f['key'] == list(key)),
                      key=lambda f: len(repr(f['case'])))
            if len(repr(case)) >= len(repr(big['case'])):
                self.extra['failures_dropped'] = self.extra.get('failures_dropped', 0) + 1
                return
            self.failures.remove(big)
        self.failures.append({'signature': signature, 'key': list(key), 'case': case,
                              'detail': detail})

    def result(self):
        samples = list(self.samples)
        if self.big_sample is not None:
            samples.append(self.big_sample[1])
        return {
            'evaluations': self.evaluations,
            'nontrivial': self.nontrivial,
            'labels': dict(self.labels),
            'samples': samples,
            'failures': self.failures,
            'known': dict(self.known),
            'excluded': dict(self.excluded),
            'skipped': dict(self.skipped),
            'extra': self.extra,
            'budget_hit': self.budget_hit,
        }


# ---------------------------------------------------------------------------
# findings

def load_findings(prop):
    path = os.path.join(VERIF, 'known_findings.json')
    if not os.path.exists(path):
        return []
    with open(path) as fd:
        data = json.load(fd)
    return [f for f in data.get('findings', []) if f.get('property') == prop or prop in f.get('also', ())]


def open_signatures(prop):
    return tuple(sorted(set(f['signature'] for f in load_findings(prop)
                            if f.get('status') == 'open' and f.get('signature'))))


# ---------------------------------------------------------------------------
# workers

_ROOT = None


def _init_worker(root, verif):
    global _ROOT
    _ROOT = root
    if verif not in sys.path:
        sys.path.insert(0, verif)
    build.activate(root)
    # the library is imported under the interpreter's default recursion limit (what a user's process has when the
    # modules are first loaded); only then is the limit raised for the harness's own recursive helpers
    import pkgutil
    import calmjs.parse
    for m in pkgutil.walk_packages(calmjs.parse.__path__, 'calmjs.parse.'):
        if '.tests' in m.name or m.name.endswith('.optimize') or 'tab_' in m.name.rsplit('.', 1)[-1]:
            continue
        try:
            importlib.import_module(m.name)
        except Exception:
            pass   # whatever fails to import will fail again, visibly, where a check needs it
    sys.setrecursionlimit(max(sys.getrecursionlimit(), 3000))
    quiet_library_logging()


def quiet_library_logging():
    import logging
    import warnings
    warnings.simplefilter('ignore', SyntaxWarning)
    warnings.simplefilter('ignore', DeprecationWarning)
    lg = logging.getLogger('calmjs')
    lg.addHandler(logging.NullHandler())
    lg.propagate = False


def _run_shard(args):
    modname, shard = args
    try:
        mod = importlib.import_module(modname)
        t0 = time.time()
        res = mod.run_shard(shard)
        res['wall_s'] = time.time() - t0
        res['shard'] = shard.get('name', '?')
        return res
    except BaseException:
        return {'harness_error': traceback.format_exc(), 'shard': shard.get('name', '?')}


def merge(results):
    out = {'evaluations': 0, 'nontrivial': set(), 'labels': Counter(), 'samples': [],
           'failures': [], 'known': Counter(), 'excluded': Counter(), 'skipped': Counter(),
           'extra': {}, 'budget_hit': False, 'errors': [], 'shards': []}
    for r in results:
        if 'harness_error' in r:
            out['errors'].append('[%s] %s' % (r.get('shard'), r['harness_error']))
            continue
        out['evaluations'] += r['evaluations']
        out['nontrivial'] |= r['nontrivial']
        out['labels'].update(r['labels'])
        out['samples'].extend(r['samples'])
        out['failures'].extend(r['failures'])
        out['known'].update(r['known'])
        out['excluded'].update(r['excluded'])
        out['skipped'].update(r['skipped'])
        out['budget_hit'] = out['budget_hit'] or r['budget_hit']
        for k, v in r['extra'].items():
            cur = out['extra'].get(k)
            if isinstance(v, (int, float)) and isinstance(cur, (int, float)):
                out['extra'][k] = cur + v
            elif isinstance(v, dict) and isinstance(cur, dict):
                for kk, vv in v.items():
                    if isinstance(vv, (int, float)) and isinstance(cur.get(kk), (int, float)):
                        cur[kk] += vv
                    else:
                        cur.setdefault(kk, vv)
            elif isinstance(v, list) and isinstance(cur, list):
                cur.extend(x for x in v if x not in cur)
            elif cur is None:
                out['extra'][k] = v
        out['shards'].append({'name': r.get('shard'), 'evaluations': r['evaluations'],
                              'wall_s': round(r.get('wall_s', 0), 2)})
    return out


def pick_samples(samples, n=10):
    seen, out = set(), []
    ordered = sorted(samples, key=lambda s: len(repr(s)))
    # a few of the shortest, a few from the middle, the largest
    if len(ordered) > n:
        step = max(1, len(ordered) // (n - 1))
        ordered = ordered[:3] + ordered[3:-1:step][:n - 4] + ordered[-1:]
    for s in ordered:
        k = repr(s)
        if k not in seen:
            seen.add(k)
            out.append(s)
    return out[:n]


# ---------------------------------------------------------------------------

def write_replay(prop, failure, tier, seed):
    d = os.environ.get('VERIF_REPLAY_DIR') or os.path.join(VERIF, 'replays')
    os.makedirs(d, exist_ok=True)
    body = {'property': prop, 'tier': tier, 'seed': seed,
            'signature': failure.get('signature'), 'case': failure['case'],
            'detail': failure.get('detail')}
    name = '%s-%016x.json' % (prop, h64(failure['case']))
    path = os.path.join(d, name)
    with open(path, 'w') as fd:
        json.dump(body, fd, indent=1, ensure_ascii=True, sort_keys=True, default=repr)
    return os.path.relpath(path, VERIF) if path.startswith(VERIF + os.sep) else path


def validate_evidence(ev):
    """Minimal structural validation mirroring EVIDENCE.schema.json's
    exploration/fault_enumeration rules (jsonschema is not installed in /venv)."""
    for k in ('property_id', 'tier', 'seed', 'level', 'coverage', 'wall_s'):
        if k not in ev:
            return 'missing %s' % k
    c = ev['coverage']
    for k in ('evaluations', 'distinct_nontrivial', 'rule', 'samples'):
        if k not in c:
            return 'coverage missing %s' % k
    if not (isinstance(c['evaluations'], int) and c['evaluations'] >= 1):
        return 'evaluations < 1'
    if not (isinstance(c['distinct_nontrivial'], int) and c['distinct_nontrivial'] >= 2):
        return 'distinct_nontrivial < 2'
    if not (isinstance(c['samples'], list) and len(c['samples']) >= 1):
        return 'no samples'
    return None


def main(argv=None):
    ap = argparse.ArgumentParser(prog='check')
    ap.add_argument('prop')
    ap.add_argument('--tier', default=os.environ.get('VERIF_TIER') or 'quick',
                    choices=['quick', 'thorough'])
    ap.add_argument('--replay', default=None)
    ap.add_argument('--seed', type=int, default=None)
    ap.add_argument('--no-evidence', action='store_true')
    args = ap.parse_args(argv)
    prop = args.prop.upper()
    try:
        seed = args.seed if args.seed is not None else int(os.environ.get('VERIF_SEED', '1') or 1)
    except ValueError:
        seed = 1
    t0 = time.time()
    build.install_signal_handlers()
    try:
        root = build.make_copy()
        build.activate(root)
        quiet_library_logging()
    except Exception as e:
        print('HARNESS-ERROR: build failed: %s' % e)
        return 2
    try:
        return _main(prop, args, seed, root, t0)
    finally:
        build.remove(root)


def _replay_failure(mod, case):
    """Run one case through the property's replay(); returns failure dict or None."""
    acc = Acc()
    mod.replay(case, acc)
    if acc.failures:
        return acc.failures[0]
    return None


def _main(prop, args, seed, root, t0):
    modname = 'props.%s' % prop.lower()
    if VERIF not in sys.path:
        sys.path.insert(0, VERIF)
    try:
        mod = importlib.import_module(modname)
    except Exception:
        print('HARNESS-ERROR: cannot import %s\n%s' % (modname, traceback.format_exc()))
        return 2
    tier = args.tier
    if hasattr(mod, 'set_root'):
        mod.set_root(root)

    if args.replay:
        with open(args.replay) as fd:
            body = json.load(fd)
        case = body.get('case', body)
        try:
            f = _replay_failure(mod, case)
        except Exception:
            print('HARNESS-ERROR: replay crashed\n%s' % traceback.format_exc())
            return 2
        if f is None:
            print('replay: property holds on %s' % args.replay)
            return 0
        print('replay: still fails: signature=%s detail=%s' % (
            f.get('signature'), json.dumps(f.get('detail'), default=repr)[:2000]))
        print('VIOLATION property=%s replay=%s' % (prop, args.replay))
        return 1

    findings = load_findings(prop)
    opens = tuple(sorted(set(f['signature'] for f in findings
                             if f.get('status') == 'open' and f.get('signature'))))
    violations = []
    known_lines = []
    notes = []
    # 1. replay witnesses of listed findings
    try:
        for f in findings:
            wit = f.get('witness')
            if wit is None or f.get('property') != prop:
                # a finding owned by another property (shared root cause): its signature is honoured
                # here, its witness is replayed by the owning property's check
                continue
            got = _replay_failure(mod, wit)
            if f.get('status') == 'fixed':
                if got is not None:
                    got = dict(got)
                    got['detail'] = {'regression_of': f.get('id'), 'detail': got.get('detail')}
                    violations.append(got)
            else:
                if got is None:
                    notes.append('finding %s no longer reproduces on its witness' % f.get('id'))
                elif got.get('signature') == f.get('signature'):
                    known_lines.append((f.get('id'), f.get('title')))
                else:
                    got = dict(got)
                    got['detail'] = {'witness_of': f.get('id'),
                                     'expected_signature': f.get('signature'),
                                     'detail': got.get('detail')}
                    violations.append(got)
    except Exception:
        print('HARNESS-ERROR: finding replay crashed\n%s' % traceback.format_exc())
        return 2

    # 2. the campaign
    try:
        if hasattr(mod, 'set_root'):
            mod.set_root(root)
        shards = mod.plan(tier, seed)
    except Exception:
        print('HARNESS-ERROR: plan failed\n%s' % traceback.format_exc())
        return 2
    for s in shards:
        s.setdefault('tier', tier)
        s.setdefault('seed', seed)
        s['open_signatures'] = opens
        s['root'] = root
    nproc = min(NPROC, max(1, len(shards)))
    ctx = mp.get_context('spawn')
    results = []
    if nproc == 1 or os.environ.get('VERIF_INPROC'):
        for s in shards:
            results.append(_run_shard((modname, s)))
    else:
        # an executor, not mp.Pool: when a worker dies outright (fatal interpreter error, killed) the pool
        # reports it instead of waiting for ever
        from concurrent.futures import ProcessPoolExecutor, as_completed
        from concurrent.futures.process import BrokenProcessPool
        try:
            with ProcessPoolExecutor(nproc, mp_context=ctx, initializer=_init_worker,
                                     initargs=(root, VERIF)) as pool:
                futs = [pool.submit(_run_shard, (modname, s)) for s in shards]
                for fut in as_completed(futs):
                    results.append(fut.result())
        except BrokenProcessPool:
            print('HARNESS-ERROR: a worker process died (fatal interpreter error or kill); %d of %d shards had finished'
                  % (len(results), len(shards)))
            return 2
    m = merge(results)
    if m['errors']:
        print('HARNESS-ERROR: %d shard(s) crashed' % len(m['errors']))
        for e in m['errors'][:3]:
            print(e)
        return 2

    # 3. unknown failures -> violations (distinct buckets, capped)
    seen = set()
    for f in sorted(m['failures'], key=lambda f: len(repr(f['case']))):
        k = tuple(f['key'])
        if k in seen:
            continue
        seen.add(k)
        if len(violations) < MAX_UNKNOWN:
            violations.append(f)

    # optional post-processing by the property (e.g. shrinking)
    if violations and hasattr(mod, 'shrink'):
        budget = 60 if tier == 'quick' else 300
        tshr = time.time()
        for i, f in enumerate(violations):
            if time.time() - tshr > budget:
                break
            try:
                violations[i] = mod.shrink(f, budget / max(1, len(violations))) or f
            except Exception:
                notes.append('shrink failed: %s' % traceback.format_exc(limit=1))

    wall = time.time() - t0
    rule = getattr(mod, 'RULE', '')
    cov = {
        'evaluations': m['evaluations'],
        'distinct_nontrivial': len(m['nontrivial']),
        'rule': rule,
        'samples': pick_samples(m['samples']),
        'labels': dict(sorted(m['labels'].items(), key=lambda kv: (-kv[1], kv[0]))[:400]),
        'excluded_by_finding': dict(m['excluded']),
        'skipped': dict(m['skipped']),
        'known_findings_reproduced': [i for i, _ in known_lines],
        'known_finding_hits_in_campaign': dict(m['known']),
        'budget_hit': m['budget_hit'],
        'shards': len(shards),
        'workers': nproc,
        'notes': notes,
    }
    if hasattr(mod, 'finish'):
        try:
            mod.finish(m, cov, tier)
        except Exception:
            print('HARNESS-ERROR: finish failed\n%s' % traceback.format_exc())
            return 2
    for k, v in m['extra'].items():
        cov.setdefault(k, v)
    ev = {
        'property_id': prop,
        'tier': tier,
        'seed': seed,
        'level': getattr(mod, 'LEVEL', 'exploration'),
        'coverage': cov,
        'assumptions': list(getattr(mod, 'ASSUMPTIONS', [])),
        'wall_s': round(wall, 2),
        'violations': len(violations),
    }
    err = validate_evidence(ev)
    if not args.no_evidence:
        os.makedirs(os.path.join(VERIF, 'evidence'), exist_ok=True)
        with open(os.path.join(VERIF, 'evidence', '%s.json' % prop), 'w') as fd:
            json.dump(ev, fd, indent=1, ensure_ascii=True, sort_keys=True, default=repr)
            fd.write('\n')
    for fid, title in known_lines:
        print('KNOWN-FINDING: property=%s %s %s' % (prop, fid, title))
    for n in notes:
        print('NOTE: %s' % n)
    print('%s tier=%s seed=%d evaluations=%d distinct_nontrivial=%d known_hits=%d wall=%.1fs%s' % (
        prop, tier, seed, m['evaluations'], len(m['nontrivial']), sum(m['known'].values()),
        wall, ' INCONCLUSIVE-BUDGET' if m['budget_hit'] else ''))
    if violations:
        for f in violations:
            path = write_replay(prop, f, tier, seed)
            print('detail: signature=%s %s' % (
                f.get('signature'), json.dumps(f.get('detail'), default=repr, ensure_ascii=True)[:1500]))
            print('VIOLATION property=%s replay=%s' % (prop, path))
        return 1
    if err:
        print('HARNESS-ERROR: evidence invalid: %s' % err)
        return 2
    return 0
