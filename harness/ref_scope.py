"""R2 - reference scope resolver over the reference tree (ES5 section 10, 12.14, 13).

resolve(ref) -> list of occurrences, in token order:
    Occ(tok index, name, role, binding)
role    : decl | ref | label_decl | label_ref
binding : ('free', name) | ('var', scope uid, name) | ('label', label uid)

Scopes: program; function (parameters, hoisted var and function declarations); the
intermediate scope that binds the name of a named function expression; catch clause.
Scope uids are assigned in creation (source) order, so two structurally identical
programs get identical uids - the obfuscation check relies on that.
Out of scope (reported through `hazards`): with statements, direct eval, a var
declaration inside a catch block that re-declares the catch parameter, function
declarations nested in blocks.
"""
from harness import ref_es5

N = ref_es5.N


class Occ(object):
    __slots__ = ('tok', 'name', 'role', 'binding')

    def __init__(self, tok, name, role):
        self.tok = tok
        self.name = name
        self.role = role
        self.binding = None

    def __repr__(self):
        return 'Occ(%d,%r,%s,%r)' % (self.tok, self.name, self.role, self.binding)


class Scope(object):
    def __init__(self, uid, kind, parent):
        self.uid = uid
        self.kind = kind  # program | function | funcname | catch
        self.parent = parent
        self.names = set()

    def lookup(self, name):
        s = self
        while s is not None:
            if name in s.names:
                return ('var', s.uid, name)
            s = s.parent
        return ('free', name)

    def function_scope(self):
        s = self
        while s.kind in ('catch', 'funcname'):
            s = s.parent
        return s


class Resolver(object):
    def __init__(self, ref):
        self.ref = ref
        self.occs = []
        self.hazards = set()
        self.nscopes = 0
        self.nlabels = 0
        self.pending = []  # (occ, scope) references resolved after all declarations are known
        self.scopes = []

    def new_scope(self, kind, parent):
        s = Scope(self.nscopes, kind, parent)
        self.nscopes += 1
        self.scopes.append(s)
        return s

    def occ(self, ident, role):
        o = Occ(ident.first, ident.fields[0], role)
        self.occs.append(o)
        return o

    # -- pass 1: declarations are hoisted, so collect them per function first
    def hoist(self, stmts, fscope, top=True):
        for s in stmts:
            self.hoist_stmt(s, fscope, top)

    def hoist_stmt(self, s, fscope, top):
        if s is None:
            return
        k = s.kind
        if k == 'Var':
            for d in s.fields[0]:
                fscope.names.add(d.fields[0].fields[0])
        elif k == 'FuncDecl':
            fscope.names.add(s.fields[0].fields[0])
            if not top:
                self.hazards.add('function_declaration_in_block')
        elif k == 'Block':
            self.hoist(s.fields[0], fscope, False)
        elif k == 'If':
            self.hoist_stmt(s.fields[1], fscope, False)
            self.hoist_stmt(s.fields[2], fscope, False)
        elif k in ('While', 'With'):
            self.hoist_stmt(s.fields[1], fscope, False)
        elif k == 'DoWhile':
            self.hoist_stmt(s.fields[0], fscope, False)
        elif k == 'For':
            init = s.fields[0]
            if isinstance(init, N) and init.kind == 'Var':
                self.hoist_stmt(init, fscope, False)
            self.hoist_stmt(s.fields[3], fscope, False)
        elif k == 'ForIn':
            left = s.fields[0]
            if left.kind == 'VarDecl':
                fscope.names.add(left.fields[0].fields[0])
            self.hoist_stmt(s.fields[2], fscope, False)
        elif k == 'Label':
            self.hoist_stmt(s.fields[1], fscope, False)
        elif k == 'Switch':
            for c in s.fields[1]:
                self.hoist(c.fields[-1], fscope, False)
        elif k == 'Try':
            self.hoist_stmt(s.fields[0], fscope, False)
            if s.fields[1] is not None:
                self.hoist_stmt(s.fields[1].fields[1], fscope, False)
            if s.fields[2] is not None:
                self.hoist_stmt(s.fields[2].fields[0], fscope, False)

    # -- pass 2: walk in source order
    def run(self):
        root = self.ref.root
        g = self.new_scope('program', None)
        self.hoist(root.fields[0], g, True)
        self.stmts(root.fields[0], g, [])
        for o, scope in self.pending:
            o.binding = scope.lookup(o.name)
        self.occs.sort(key=lambda o: o.tok)
        return self.occs

    def reference(self, ident, scope, role='ref'):
        o = self.occ(ident, role)
        self.pending.append((o, scope))
        return o

    def stmts(self, lst, scope, labels):
        for s in lst:
            self.stmt(s, scope, labels)

    def function(self, node, scope, is_decl):
        name, params, body = node.fields
        outer = scope
        if name is not None:
            if is_decl:
                self.reference(name, scope, 'decl')
            else:
                outer = self.new_scope('funcname', scope)
                outer.names.add(name.fields[0])
                self.reference(name, outer, 'decl')
        f = self.new_scope('function', outer)
        for p in params:
            f.names.add(p.fields[0])
        self.hoist(body, f, True)
        for p in params:
            self.reference(p, f, 'decl')
        self.stmts(body, f, [])

    def stmt(self, s, scope, labels):
        if s is None:
            return
        k = s.kind
        f = s.fields
        if k == 'Var':
            for d in f[0]:
                self.vardecl(d, scope)
        elif k == 'FuncDecl':
            self.function(s, scope, True)
        elif k in ('Empty', 'Debugger'):
            pass
        elif k == 'Expr':
            self.expr(f[0], scope)
        elif k == 'Block':
            self.stmts(f[0], scope, labels)
        elif k == 'If':
            self.expr(f[0], scope)
            self.stmt(f[1], scope, labels)
            self.stmt(f[2], scope, labels)
        elif k == 'While':
            self.expr(f[0], scope)
            self.stmt(f[1], scope, labels)
        elif k == 'DoWhile':
            self.stmt(f[0], scope, labels)
            self.expr(f[1], scope)
        elif k == 'With':
            self.hazards.add('with')
            self.expr(f[0], scope)
            self.stmt(f[1], scope, labels)
        elif k == 'For':
            init = f[0]
            if isinstance(init, N) and init.kind == 'Var':
                self.stmt(init, scope, labels)
            else:
                self.expr(init, scope)
            self.expr(f[1], scope)
            self.expr(f[2], scope)
            self.stmt(f[3], scope, labels)
        elif k == 'ForIn':
            left = f[0]
            if left.kind == 'VarDecl':
                self.vardecl(left, scope)
            else:
                self.expr(left, scope)
            self.expr(f[1], scope)
            self.stmt(f[2], scope, labels)
        elif k in ('Return', 'Throw'):
            self.expr(f[0], scope)
        elif k in ('Break', 'Continue'):
            if f[0] is not None:
                o = self.occ(f[0], 'label_ref')
                target = None
                for name, uid in reversed(labels):
                    if name == o.name:
                        target = uid
                        break
                o.binding = ('label', target) if target is not None else ('free_label', o.name)
                if target is None:
                    # break/continue to a label that does not enclose it: an early error in ES5,
                    # the program has no meaning that a renaming could preserve
                    self.hazards.add('undefined_label')
        elif k == 'Label':
            uid = self.nlabels
            self.nlabels += 1
            o = self.occ(f[0], 'label_decl')
            o.binding = ('label', uid)
            self.stmt(f[1], scope, labels + [(o.name, uid)])
        elif k == 'Switch':
            self.expr(f[0], scope)
            for c in f[1]:
                if c.kind == 'Case':
                    self.expr(c.fields[0], scope)
                self.stmts(c.fields[-1], scope, labels)
        elif k == 'Try':
            self.stmt(f[0], scope, labels)
            if f[1] is not None:
                param, block = f[1].fields
                c = self.new_scope('catch', scope)
                c.names.add(param.fields[0])
                self.reference(param, c, 'decl')
                # hazard: var re-declaring the catch parameter inside the catch block
                if self._declares(block, param.fields[0]):
                    self.hazards.add('var_redeclares_catch_parameter')
                self.stmt(block, c, labels)
            if f[2] is not None:
                self.stmt(f[2].fields[0], scope, labels)
        else:
            raise AssertionError('unknown statement kind ' + k)

    def _declares(self, node, name):
        tmp = Scope(-1, 'function', None)
        self.hoist_stmt(node, tmp, False)
        return name in tmp.names

    def vardecl(self, d, scope):
        ident, init = d.fields
        # the declared name belongs to the enclosing function scope; with an initialiser the
        # occurrence is also an assignment target resolved through the scope chain - the same
        # binding unless a catch parameter / function-expression name shadows it (hazard above)
        self.reference(ident, scope, 'decl')
        self.expr(init, scope)

    def expr(self, e, scope):
        if e is None or isinstance(e, str):
            return
        if isinstance(e, list):
            for x in e:
                self.expr(x, scope)
            return
        k = e.kind
        f = e.fields
        if k == 'Ident':
            self.reference(e, scope, 'ref')
        elif k in ('This', 'Null', 'Bool', 'Num', 'Str', 'Regex', 'Elision', 'PropIdent'):
            pass
        elif k == 'FuncExpr':
            self.function(e, scope, False)
        elif k == 'Object':
            for p in f[0]:
                if p.kind == 'Init':
                    self.expr(p.fields[1], scope)
                elif p.kind == 'Getter':
                    fs = self.new_scope('function', scope)
                    self.hoist(p.fields[1], fs, True)
                    self.stmts(p.fields[1], fs, [])
                else:
                    fs = self.new_scope('function', scope)
                    fs.names.add(p.fields[1].fields[0])
                    self.hoist(p.fields[2], fs, True)
                    self.reference(p.fields[1], fs, 'decl')
                    self.stmts(p.fields[2], fs, [])
        elif k == 'Dot':
            self.expr(f[0], scope)
        elif k == 'Call':
            callee = f[0]
            if isinstance(callee, N) and callee.kind == 'Ident' and callee.fields[0] == 'eval':
                self.hazards.add('direct_eval')
            self.expr(f[0], scope)
            self.expr(f[1], scope)
        elif k == 'Args':
            self.expr(f[0], scope)
        elif k in ('Binary', 'Assign', 'Unary', 'Postfix'):
            for x in f[1:]:
                self.expr(x, scope)
        else:
            # Paren, Array, Index, New, Cond, Comma
            for x in f:
                self.expr(x, scope)


def resolve(ref):
    r = Resolver(ref)
    occs = r.run()
    return occs, r.hazards, r.scopes


def selftest():
    def names(src):
        ref = ref_es5.parse(src)
        occs, hz, scopes = resolve(ref)
        return [(o.name, o.role, o.binding) for o in occs], hz
    got, hz = names('var a; function f(b){ var c; return a + b + c + d; }')
    assert got == [('a', 'decl', ('var', 0, 'a')), ('f', 'decl', ('var', 0, 'f')), ('b', 'decl', ('var', 1, 'b')),
                   ('c', 'decl', ('var', 1, 'c')), ('a', 'ref', ('var', 0, 'a')), ('b', 'ref', ('var', 1, 'b')),
                   ('c', 'ref', ('var', 1, 'c')), ('d', 'ref', ('free', 'd'))], got
    got, hz = names('function S(){ (function g(){ g() }); g() }')
    assert got[1][2] == ('var', 2, 'g') and got[2][2] == ('var', 2, 'g') and got[3][2] == ('free', 'g'), got
    got, hz = names('try { x } catch (e) { e; var y; } e; y;')
    assert [g[2] for g in got] == [('free', 'x'), ('var', 1, 'e'), ('var', 1, 'e'), ('var', 0, 'y'), ('free', 'e'),
                                   ('var', 0, 'y')], got
    got, hz = names('L: for(;;){ M: while(1){ break L; continue M; } } function f(){ L: break L; }')
    assert [g[2] for g in got if g[1].startswith('label')] == [('label', 0), ('label', 1), ('label', 0), ('label', 1),
                                                                ('label', 2), ('label', 2)], got
    got, hz = names('function f(){ x = 1; var x; function g(){ return x } }')
    assert [g[2] for g in got if g[0] == 'x'] == [('var', 1, 'x')] * 3, got
    got, hz = names('with (a) b; eval("x"); try {} catch (e) { var e; }')
    assert hz == {'with', 'direct_eval', 'var_redeclares_catch_parameter'}, hz
    got, hz = names('o = { get p(){ return q }, set p(v){ q = v } }; var q')
    assert [g[2] for g in got] == [('free', 'o'), ('var', 0, 'q'), ('var', 2, 'v'), ('var', 0, 'q'),
                                   ('var', 2, 'v'), ('var', 0, 'q')], got
    return True
