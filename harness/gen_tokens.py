# -*- coding: utf-8 -*-
"""G2 token-string enumerator and G3 token-level mutations (DESIGN.md 3.3)."""
import itertools

ALPHABET = ['a', '1', '"s"', '(', ')', '{', '}', '[', ']', ',', ';', ':', '?', '.', '=', '+', '++', '!', '/',
            'in', 'new', 'function', 'var', 'if', 'else', 'for', 'return', 'get', '\n']
MUT_TOKENS = ALPHABET + ['b', '-', '--', '*', '&&', '||', '<', '/=', '+=', 'this', 'typeof', 'while', 'do',
                         'break', 'case', 'default', 'switch', 'try', 'catch', 'finally', 'throw', 'with',
                         'instanceof', 'delete', 'void', 'null', 'set', '0', '.5', "'t'", 'continue', 'debugger',
                         '===', '>>>', '%', '~', 'L', 'x',
                         # neither white space nor a token in ES5: controls Python counts as white space, a zero
                         # width space; a letter outside the BMP; identifiers with joiners; odd regex flags
                         '\x85', '\x1c', '\x1f', u'\u200b', u'\U00010400', u'a\U0001d400', u'a\u200c', u'\u200d',
                         u'\u212b', u'A\u030a', u'\u2126']


def count_strings(n):
    return sum(len(ALPHABET) ** k for k in range(0, n + 1))


def string_at(index):
    """the index-th string in length-then-lexicographic order"""
    base = len(ALPHABET)
    k = 0
    while index >= base ** k:
        index -= base ** k
        k += 1
    toks = []
    for _ in range(k):
        toks.append(ALPHABET[index % base])
        index //= base
    return toks[::-1]


def join(toks):
    return ' '.join(toks)


def mutate(draw, toks):
    """one single-token mutation of a list of token texts; returns (kind, new list)"""
    from hypothesis import strategies as st
    n = len(toks)
    kind = draw(st.sampled_from(['delete', 'insert', 'replace', 'duplicate', 'swap']))
    if n == 0:
        kind = 'insert'
    out = list(toks)
    if kind == 'delete':
        i = draw(st.integers(0, n - 1))
        del out[i]
    elif kind == 'insert':
        i = draw(st.integers(0, n))
        out.insert(i, draw(st.sampled_from(MUT_TOKENS)))
    elif kind == 'replace':
        i = draw(st.integers(0, n - 1))
        out[i] = draw(st.sampled_from(MUT_TOKENS))
    elif kind == 'duplicate':
        i = draw(st.integers(0, n - 1))
        out.insert(i, out[i])
    else:
        if n < 2:
            out = out + out
        else:
            i = draw(st.integers(0, n - 2))
            out[i], out[i + 1] = out[i + 1], out[i]
    return kind, out


def mutate_tree(draw, ref):
    """one subtree-level mutation of a reference parse: the token range of a node is duplicated in
    place, deleted, moved next to a sibling range or replaced by the range of another node of the
    same kind.  Returns (kind, token texts)."""
    from hypothesis import strategies as st
    from harness.findings import walk
    toks = [t.text for t in ref.tokens]
    nodes = [n for n in walk(ref.root) if n.last >= n.first and n.kind != 'Program']
    if not nodes:
        return 'tree_none', toks
    kind = draw(st.sampled_from(['tree_duplicate', 'tree_duplicate', 'tree_delete', 'tree_swap', 'tree_replace']))
    a = nodes[draw(st.integers(0, len(nodes) - 1))]
    span = toks[a.first:a.last + 1]
    if kind == 'tree_duplicate':
        return kind, toks[:a.last + 1] + span + toks[a.last + 1:]
    if kind == 'tree_delete':
        return kind, toks[:a.first] + toks[a.last + 1:]
    b = nodes[draw(st.integers(0, len(nodes) - 1))]
    if kind == 'tree_replace':
        return kind, toks[:a.first] + toks[b.first:b.last + 1] + toks[a.last + 1:]
    # swap two disjoint ranges
    if b.first <= a.last and a.first <= b.last:
        return 'tree_duplicate', toks[:a.last + 1] + span + toks[a.last + 1:]
    if b.first < a.first:
        a, b = b, a
    return kind, (toks[:a.first] + toks[b.first:b.last + 1] + toks[a.last + 1:b.first] +
                  toks[a.first:a.last + 1] + toks[b.last + 1:])
