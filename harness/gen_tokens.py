# -*- coding: utf-8 -*-
"""G2 token-string enumerator and G3 token-level mutations (DESIGN.md 3.3)."""
import itertools

ALPHABET = ['a', '1', '"s"', '(', ')', '{', '}', '[', ']', ',', ';', ':', '?', '.', '=', '+', '++', '!', '/',
            'in', 'new', 'function', 'var', 'if', 'else', 'for', 'return', 'get', '\n']
MUT_TOKENS = ALPHABET + ['b', '-', '--', '*', '&&', '||', '<', '/=', '+=', 'this', 'typeof', 'while', 'do',
                         'break', 'case', 'default', 'switch', 'try', 'catch', 'finally', 'throw', 'with',
                         'instanceof', 'delete', 'void', 'null', 'set', '0', '.5', "'t'", 'continue', 'debugger',
                         '===', '>>>', '%', '~', 'L', 'x']


def count_strings(n):
    return sum(len(ALPHABET) ** k for k in range(0, n + 1))


def string_at(index):
    """the index-th string in length-then-lexicographic order"""
    base = len(ALPHABET)
    k = 0
    while index >= base ** k:
        index -= base ** k
        k += 1
    toks = []
    for _ in range(k):
        toks.append(ALPHABET[index % base])
        index //= base
    return toks[::-1]


def join(toks):
    return ' '.join(toks)


def mutate(draw, toks):
    """one single-token mutation of a list of token texts; returns (kind, new list)"""
    from hypothesis import strategies as st
    n = len(toks)
    kind = draw(st.sampled_from(['delete', 'insert', 'replace', 'duplicate', 'swap']))
    if n == 0:
        kind = 'insert'
    out = list(toks)
    if kind == 'delete':
        i = draw(st.integers(0, n - 1))
        del out[i]
    elif kind == 'insert':
        i = draw(st.integers(0, n))
        out.insert(i, draw(st.sampled_from(MUT_TOKENS)))
    elif kind == 'replace':
        i = draw(st.integers(0, n - 1))
        out[i] = draw(st.sampled_from(MUT_TOKENS))
    elif kind == 'duplicate':
        i = draw(st.integers(0, n - 1))
        out.insert(i, out[i])
    else:
        if n < 2:
            out = out + out
        else:
            i = draw(st.integers(0, n - 2))
            out[i], out[i + 1] = out[i + 1], out[i]
    return kind, out
