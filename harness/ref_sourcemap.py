"""R3 - Source Map V3 decoder written from the specification text (uses R4 for VLQ)."""
from harness import ref_vlq


class MapError(Exception):
    pass


def decode(smap):
    """smap: dict (parsed JSON).  Returns list of lines; each line a list of segments
    (gen_col, source_index|None, src_line|None, src_col|None, name_index|None) with absolute
    values as the specification defines (fields 2-5 accumulate over the whole file, field 1
    restarts at 0 on every line)."""
    if smap.get('version') != 3:
        raise MapError('version is not 3')
    mappings = smap.get('mappings')
    if not isinstance(mappings, str):
        raise MapError('mappings is not a string')
    sources = smap.get('sources')
    names = smap.get('names', [])
    src = sl = sc = nm = 0
    out = []
    for line in mappings.split(';'):
        col = 0
        segs = []
        if line:
            for seg in line.split(','):
                if not seg:
                    raise MapError('empty segment')
                for ch in seg:
                    if ch not in ref_vlq.ALPHA:
                        raise MapError('bad character %r' % ch)
                vals = ref_vlq.decode_all(seg)
                # canonical VLQ text
                if ''.join(ref_vlq.encode(v) for v in vals) != seg:
                    raise MapError('segment %r is not canonical VLQ' % seg)
                if len(vals) not in (1, 4, 5):
                    raise MapError('segment with %d fields' % len(vals))
                col += vals[0]
                if col < 0:
                    raise MapError('negative generated column')
                if len(vals) == 1:
                    segs.append((col, None, None, None, None))
                    continue
                src += vals[1]
                sl += vals[2]
                sc += vals[3]
                if not (0 <= src < len(sources)):
                    raise MapError('source index %d out of range (%d sources)' % (src, len(sources)))
                if sl < 0 or sc < 0:
                    raise MapError('negative source position (%d, %d)' % (sl, sc))
                n = None
                if len(vals) == 5:
                    nm += vals[4]
                    if not (0 <= nm < len(names)):
                        raise MapError('name index %d out of range (%d names)' % (nm, len(names)))
                    n = nm
                segs.append((col, src, sl, sc, n))
        cols = [s[0] for s in segs]
        if cols != sorted(cols):
            raise MapError('generated columns decrease within a line')
        out.append(segs)
    return out


def lookup(lines, gl, gc):
    """greatest segment with column <= gc on generated line gl (0-based), or None"""
    if gl >= len(lines):
        return None
    best = None
    for s in lines[gl]:
        if s[0] <= gc:
            best = s
        else:
            break
    return best


def exact(lines, gl, gc):
    if gl >= len(lines):
        return []
    return [s for s in lines[gl] if s[0] == gc]


def selftest():
    # a hand-worked example: "AAAA;AACA,CAAC" etc.
    m = {'version': 3, 'sources': ['a.js'], 'names': ['n'], 'mappings': 'AAAA,CAAC;;EACAA,G'}
    d = decode(m)
    assert d == [[(0, 0, 0, 0, None), (1, 0, 0, 1, None)], [], [(2, 0, 1, 1, 0), (5, None, None, None, None)]], d
    assert lookup(d, 0, 5) == (1, 0, 0, 1, None)
    return True
