"""Build step shared by every check (DESIGN.md 3.1).

A check never imports ``calmjs.parse`` from site-packages or from /repo/src
directly: it copies the working tree's package to a scratch directory outside
/repo and /verif, regenerates the ply tables there with the project's own
helper, and makes worker processes import *that* copy.
"""
import atexit
import os
import shutil
import signal
import subprocess
import sys
import tempfile

REPO = os.environ.get('VERIF_REPO', '/repo')
GUARD = 'CALMJS_PARSE_VERIF'

_made = []


def _cleanup():
    while _made:
        shutil.rmtree(_made.pop(), ignore_errors=True)


atexit.register(_cleanup)


def _on_signal(signum, frame):
    _cleanup()
    sys.exit(2)


class BuildError(Exception):
    pass


def make_copy(repo=None, optimize=True):
    """Copy <repo>/src/calmjs/parse to a fresh scratch tree; returns its root
    (the directory that must be put on sys.path is <root>/src)."""
    repo = repo or REPO
    src = os.path.join(repo, 'src', 'calmjs', 'parse')
    if not os.path.isdir(src):
        raise BuildError('no package at %s' % src)
    base = os.environ.get('VERIF_SCRATCH') or tempfile.gettempdir()
    root = tempfile.mkdtemp(prefix='calmjs-verif-', dir=base)
    _made.append(root)
    dst = os.path.join(root, 'src', 'calmjs', 'parse')
    shutil.copytree(
        src, dst,
        ignore=shutil.ignore_patterns('__pycache__', '*.pyc', 'lextab_*', 'yacctab_*'))
    if optimize:
        run_optimize(root)
    return root


def child_env(root):
    env = dict(os.environ)
    env['PYTHONPATH'] = os.path.join(root, 'src')
    env['PYTHONHASHSEED'] = '0'
    env['PYTHONDONTWRITEBYTECODE'] = '1'
    env[GUARD] = '1'
    return env


BOOT = (
    "import sys, os; sys.path.insert(0, %r);"
    "import calmjs; calmjs.__path__ = [%r] + [p for p in calmjs.__path__];"
)


def boot_code(root):
    return BOOT % (os.path.join(root, 'src'), os.path.join(root, 'src', 'calmjs'))


def run_optimize(root, args=('--build',), env_extra=None):
    """Run the project's own table generator inside the copy."""
    code = boot_code(root) + (
        "import runpy; sys.argv = ['optimize'] + %r;"
        "runpy.run_module('calmjs.parse.parsers.optimize', run_name='__main__')"
        % (list(args),))
    env = child_env(root)
    env.update(env_extra or {})
    p = subprocess.run([sys.executable, '-c', code], env=env,
                       capture_output=True, text=True, timeout=300)
    tabs = [f for f in os.listdir(os.path.join(root, 'src', 'calmjs', 'parse', 'parsers'))
            if f.startswith(('lextab_', 'yacctab_'))]
    if p.returncode != 0 or len(tabs) < 2:
        raise BuildError('table generation failed (rc=%s): %s\n%s' % (
            p.returncode, p.stdout[-2000:], p.stderr[-2000:]))
    return tabs


def activate(root):
    """Make this process import calmjs.parse from the copy; verify it."""
    srcdir = os.path.join(root, 'src')
    for name in [n for n in sys.modules if n == 'calmjs.parse' or n.startswith('calmjs.parse.')]:
        del sys.modules[name]
    if srcdir not in sys.path:
        sys.path.insert(0, srcdir)
    import calmjs
    p = os.path.join(srcdir, 'calmjs')
    path = list(calmjs.__path__)
    if p in path:
        path.remove(p)
    path.insert(0, p)
    calmjs.__path__ = path
    os.environ[GUARD] = '1'
    sys.dont_write_bytecode = True
    import calmjs.parse
    f = os.path.realpath(calmjs.parse.__file__)
    if not f.startswith(os.path.realpath(srcdir) + os.sep):
        raise BuildError('calmjs.parse imported from %s, not from the copy %s' % (f, srcdir))
    return calmjs.parse


def remove(root):
    shutil.rmtree(root, ignore_errors=True)
    if root in _made:
        _made.remove(root)


def install_signal_handlers():
    for s in (signal.SIGTERM, signal.SIGINT, signal.SIGHUP):
        try:
            signal.signal(s, _on_signal)
        except Exception:
            pass
