"""R5 - position arithmetic under ES5 line terminators (LF, CR, CRLF as one, U+2028, U+2029)."""
import bisect

LT = u'\n\r\u2028\u2029'


class LineMap(object):
    def __init__(self, text):
        self.text = text
        starts = [0]
        i, n = 0, len(text)
        while i < n:
            c = text[i]
            if c == '\r' and i + 1 < n and text[i + 1] == '\n':
                i += 2
                starts.append(i)
            elif c in LT:
                i += 1
                starts.append(i)
            else:
                i += 1
        self.starts = starts

    def linecol(self, offset):
        """1-based line and column of an offset"""
        k = bisect.bisect_right(self.starts, offset) - 1
        return k + 1, offset - self.starts[k] + 1

    def offset(self, line, col):
        """offset of 1-based (line, col) or None if there is no such place"""
        if line < 1 or col < 1 or line > len(self.starts):
            return None
        off = self.starts[line - 1] + col - 1
        end = self.starts[line] if line < len(self.starts) else len(self.text)
        if off > end:
            return None
        return off

    def nlines(self):
        return len(self.starts)
