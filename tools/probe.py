#!/venv/bin/python
"""Dev probe: parse each argument (python string literal syntax ok) with calmjs (working tree copy) and R1."""
import sys, os, ast
here = os.path.dirname(os.path.dirname(os.path.abspath(__file__)))
sys.path.insert(0, here)
from harness import build
root = build.make_copy(); build.activate(root)
from calmjs.parse import es5
from harness import ref_es5, canon
for a in sys.argv[1:]:
    try: src = ast.literal_eval(a) if a[:1] in '"\'' or a[:2] in ('u"', "u'") else a
    except Exception: src = a
    print('SRC', repr(src))
    try:
        t = es5(src); c = canon.canon_calmjs(t); print('  calmjs:', c)
    except Exception as e:
        print('  calmjs: %s: %s' % (type(e).__name__, e)); c = None
    try:
        r = ref_es5.parse(src); print('  ref   :', 'same' if r.tree == c else r.tree)
    except ref_es5.RefSyntaxError as e:
        print('  ref   : reject', e)
