#!/bin/sh
# usage: tools/seeded_batch.sh <candidate dir> ...   -> verify, then run the owning check; one JSON line each
for d in "$@"; do
  /venv/bin/python /verif/tools/seeded.py verify "$d" | /venv/bin/python -c "import json,sys; r=json.load(sys.stdin); print('VERIFY', r['dir'], 'confirmed=%s' % r['confirmed'], 'clean=%s patched=%s tests=%s' % (r['demo_on_clean'], r['demo_on_patched'], r['repo_tests_tail']))"
  /venv/bin/python /verif/tools/seeded.py run "$d" | /venv/bin/python -c "
import json,sys; r=json.load(sys.stdin)
for p,c in r['checks'].items():
    print('RUN', r['dir'], p, 'caught=%s' % c['caught'], [(x['seed'], x['rc'], x['wall_s']) for x in c['runs']], (c['runs'][-1]['first_detail'] or '')[:260])"
done
