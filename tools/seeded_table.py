#!/venv/bin/python
"""Regenerate the sensitivity table of DESIGN.md (appendix F.6) from seeded/*/meta.json.
The table lives between the markers <!-- seeded-table:begin --> and <!-- seeded-table:end -->."""
import glob
import json
import os
import re

here = os.path.dirname(os.path.dirname(os.path.abspath(__file__)))


def cell(s, n):
    s = re.sub(r'\s+', ' ', s or '').replace('|', '\\|')
    return s if len(s) <= n else s[:n - 1].rstrip() + '\u2026'


rows = ['| id | change | needs | caught by (quick tier) | strengthened |', '|---|---|---|---|---|']
total = caught = own = 0
for f in sorted(glob.glob(os.path.join(here, 'seeded', '*', 'meta.json'))):
    m = json.load(open(f))
    name = os.path.basename(os.path.dirname(f))
    if m.get('superseded_by'):
        rows.append('| %s | %s | %s | %s | %s |' % (name, cell(m.get('summary'), 150), cell(m.get('needs'), 110),
                                                    cell('superseded: ' + m['superseded_by'], 160), ''))
        continue
    total += 1
    by = sorted(k for k, v in m.get('checks_run', {}).items() if v.get('caught'))
    missed = sorted(k for k, v in m.get('checks_run', {}).items() if not v.get('caught'))
    if by:
        caught += 1
        if m.get('property') in by:
            own += 1
    who = ', '.join(by) if by else ('none: ' + m.get('not_caught_because', ''))
    if by and missed:
        who += ' (not by %s)' % ', '.join(missed)
    rows.append('| %s | %s | %s | %s | %s |' % (name, cell(m.get('summary'), 150), cell(m.get('needs'), 110), cell(who, 160),
                                                'yes' if m.get('history') else ''))
table = '\n'.join(rows) + '\n\n%d changes; %d caught (%d by the owning property\'s check).\n' % (total, caught, own)
p = os.path.join(here, 'DESIGN.md')
s = open(p, encoding='utf-8').read()
b, e = '<!-- seeded-table:begin -->\n', '<!-- seeded-table:end -->\n'
assert b in s and e in s, 'markers missing'
s = s[:s.index(b) + len(b)] + table + s[s.index(e):]
open(p, 'w', encoding='utf-8').write(s)
print('%d rows; caught %d, by owner %d' % (total, caught, own))
