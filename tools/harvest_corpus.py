#!/venv/bin/python
"""One-off: harvest the JavaScript snippets embedded in the repository's test
manifests into corpus/seed.jsonl (committed)."""
import importlib, json, os, sys, textwrap
here = os.path.dirname(os.path.dirname(os.path.abspath(__file__)))
sys.path.insert(0, here)
from harness import build
root = build.make_copy()
build.activate(root)
from calmjs.parse.testing import util
rec = []
def mk(kind):
    def builder(name, f, manifest, *a, **kw):
        manifest = list(manifest)
        for item in manifest:
            label, arg = item[0], item[1]
            if isinstance(arg, str):
                rec.append({'origin': name, 'label': label, 'kind': kind, 'src': arg})
            elif isinstance(arg, (tuple, list)):
                for x in arg:
                    if isinstance(x, str):
                        rec.append({'origin': name, 'label': label, 'kind': kind, 'src': x})
        return orig[kind](name, f, manifest, *a, **kw)
    return builder
orig = {'equality': util.build_equality_testcase, 'exception': util.build_exception_testcase}
util.build_equality_testcase = mk('equality')
util.build_exception_testcase = mk('exception')
for m in ['test_es5_lexer', 'test_es5_parser', 'test_es5_unparser', 'test_unparsers_extractor', 'test_sourcemap',
          'test_handlers_obfuscation', 'test_unparsers_walker', 'test_walkers', 'test_io', 'test_rules']:
    try:
        importlib.import_module('calmjs.parse.tests.' + m)
    except Exception as e:
        print('skip', m, e)
seen, out = set(), []
for r in rec:
    s = r['src']
    for v in (s, textwrap.dedent(s).strip()):
        if v and v not in seen:
            seen.add(v)
            out.append(dict(r, src=v))
with open(os.path.join(here, 'corpus', 'seed.jsonl'), 'w') as fd:
    for r in out:
        fd.write(json.dumps(r, ensure_ascii=True, sort_keys=True) + '\n')
print(len(rec), 'recorded,', len(out), 'distinct written')
