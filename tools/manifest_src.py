NOTES = ('Single entry point ./check <ID> --tier quick|thorough [--replay FILE]; exit 0 held, 1 violation '
         '(VIOLATION line), 2 harness error. Known findings live in known_findings.json (read-only at run time).')
NOT_APPLICABLE = {}
R1NOTE = 'Trusted: the independent reference ES5 front end harness/ref_es5.py (validated at the start of every run against trees known by construction, and on the repository test snippets); the narrow neutralisers/predicates of listed findings in harness/findings.py.'
CHECKS = {
 'C03': dict(
    text='Differential against an independently written ES5.1 lexer + recursive-descent parser over (i) grammar-derived programs whose tree is known by construction, under four layout regimes, (ii) all token strings up to length 3 (quick) / 4 (thorough) over a 29-token alphabet (exhaustive for that bound), (iii) single-token mutations of derived programs and of the repository snippets. Acceptance is compared in both directions and trees structurally. Sampled exploration beyond the enumerated part.',
    note=R1NOTE,
    technique='differential testing against a reference parser: Hypothesis grammar-based generation + exhaustive short-string enumeration + mutation'),
 'C10': dict(
    text='Exhaustive enumeration of a symmetric integer range plus all power-of-32 boundaries up to 400 bits, plus Hypothesis-generated integers, lists, mappings structures and grammar-built canonical VLQ strings; round trips at all three levels and a differential against an independent codec. Exhaustive for the stated range, sampled beyond it.',
    note='Trusted: the 20-line reference codec in harness/ref_vlq.py (validated on worked examples at start of each run).',
    technique='exhaustive enumeration + Hypothesis property-based testing; round-trip and differential oracle'),
}
