NOTES = ('Single entry point ./check <ID> --tier quick|thorough [--replay FILE]; exit 0 held, 1 violation '
         '(VIOLATION line), 2 harness error. Known findings live in known_findings.json (read-only at run time).')
NOT_APPLICABLE = {}
R1NOTE = 'Trusted: the independent reference ES5 front end harness/ref_es5.py (validated at the start of every run against trees known by construction, and on the repository test snippets); the narrow neutralisers/predicates of listed findings in harness/findings.py.'
CHECKS = {
 'C03': dict(
    text='Differential against an independently written ES5.1 lexer + recursive-descent parser over (i) grammar-derived programs whose tree is known by construction, under four layout regimes, (ii) all token strings up to length 3 (quick) / 4 (thorough) over a 29-token alphabet (exhaustive for that bound), (iii) single-token and subtree mutations of derived programs and of the repository snippets, (iv) exhaustive sweeps of identifier characters and of every run of up to 4 (thorough: 5) operator characters between two identifiers. Acceptance is compared in both directions and trees structurally. Sampled exploration beyond the enumerated part.',
    note=R1NOTE,
    technique='differential testing against a reference parser: Hypothesis grammar-based generation + exhaustive short-string enumeration + mutation'),
 'C10': dict(
    text='Exhaustive enumeration of a symmetric integer range plus all power-of-32 and power-of-2 boundaries up to 400 bits, plus Hypothesis-generated integers, lists, mappings structures and grammar-built canonical VLQ strings; round trips at all three levels and a differential against an independent codec. Exhaustive for the stated range, sampled beyond it.',
    note='Trusted: the 20-line reference codec in harness/ref_vlq.py (validated on worked examples at start of each run).',
    technique='exhaustive enumeration + Hypothesis property-based testing; round-trip and differential oracle'),
}
CHECKS.update({
 'C04': dict(
    text='Grammar-derived programs with Hypothesis-chosen subsets of statement terminators omitted behind every kind of line-break-carrying layout, wild variants that break restricted productions or drop for-header/empty-statement semicolons, and an enumerated product statement kind x separator x following text x context (full in the thorough tier). ECMA-262 7.9.1 is implemented literally in the reference parser; acceptance and trees are compared, plus the metamorphic explicit-vs-omitted clause.',
    note=R1NOTE,
    technique='differential + metamorphic property-based testing (Hypothesis) and exhaustive product enumeration against a reference ASI implementation'),
 'C05': dict(
    text='Exhaustive enumeration of a slash-context product (226 preceding constructs x 11 layouts x 6 continuations x 10 nesting contexts) plus grammar-derived programs weighted towards /, /= and regex literals; the reference lexer receives the goal symbol from its parser as the specification defines, calmjs must agree on acceptance and on the tree (which spells each regex and division).',
    note=R1NOTE,
    technique='differential testing against a goal-symbol-driven reference lexer/parser: exhaustive product enumeration + Hypothesis'),
 'C06': dict(
    text='Generated slash-free lexical soup (must lex; compared token by token with the reference lexer) every run of up to 4 (thorough: 5) operator characters (exhaustive), grammar-derived programs, and histories of lexer objects each run in an interpreter of its own (what one lexer read must not show in the positions another reports); conservation (substring, order, gaps only layout, tiling), location (line/column vs reference counting of LF/CR/CRLF/LS/PS, also inside multi-line tokens) and classification (longest match, keyword only on exact match).',
    note='Trusted: reference lexer of harness/ref_es5.py and harness/positions.py. Inputs on which the lexer raises are outside the quantifier and are counted, not judged.',
    technique='Hypothesis property-based testing with invariant + differential oracle'),
 'C12': dict(
    text='Random Unicode text, lexical soup with broken pieces, truncations and single-character corruptions of valid programs, and exhaustive enumeration of all strings up to length 3 (quick) / 4 (thorough) over a 32-character hot alphabet, each through parse, parse with comments and bare lexer iteration; outcome must be a tree or ECMASyntaxError, must terminate (watchdog, confirmed by re-run), and the first quoted text of a message must occur at the quoted line:column.',
    note='Trusted: harness/positions.py; message formats parsed as the library prints them. Termination judged by a 20 s / 60 s watchdog.',
    technique='fuzzing-style robustness testing: Hypothesis text/corruption generators + exhaustive short-string enumeration; exception-type and message-position oracle'),
})
CHECKS.update({
 'C01': dict(
    text='Round trip and fixpoint over grammar-derived programs in four layout regimes and the repository snippets, with Hypothesis-drawn indentation strings (spaces, tabs, mixed, empty): the pretty output is re-parsed by calmjs and by the independent reference parser, trees compared structurally, and printed again for byte equality.',
    note=R1NOTE + ' Sources on which calmjs and the reference parser already disagree are counted and left to C03.',
    technique='round-trip + differential property-based testing (Hypothesis, grammar-based generator)'),
 'C02': dict(
    text='Round trip of minified output (drop_semi off/on) through calmjs and the reference parser with the two normalisations the statement grants, plus a token-level no-fusion comparison of reference token streams, over grammar-derived programs, the repository snippets and an enumerated adjacency product of slot templates x operand classes (every 12th case per quick run, all in the thorough tier).',
    note=R1NOTE + ' Sources on which calmjs and the reference parser already disagree are counted and left to C03.',
    technique='round-trip + differential property-based testing with exhaustive adjacency-product enumeration'),
})
CHECKS.update({
 'C16': dict(
    text='Reflection oracle over trees of grammar-derived programs and repository snippets: the nodes reachable through instance attributes must be exactly what Walker.walk yields, once each, pre-order, repeatably; filter equals walk-then-select and extract returns the k-th match or raises TypeError, for generated predicates and skip values around the match count.',
    note='Trusted: Python reflection over vars(node); attached comments and positions treated as metadata (stated domain decision).',
    technique='Hypothesis property-based testing with a reflective reference model of traversal'),
 'C20': dict(
    text='The pretty output of nesting-biased grammar-derived programs (with and without comment capture) under many indentation strings is parsed by the reference front end; each line that starts a token must carry exactly indent x depth, depth computed from the brace structure of the reference tree plus one inside case/default bodies; final-newline clause checked on the text.',
    note=R1NOTE,
    technique='Hypothesis property-based testing against an independent indentation model derived from a reference parse of the output'),
})
CHECKS.update({
 'C08': dict(
    text='Every positioned fragment yielded by five printer configurations (pretty, minify, drop_semi, obfuscation with and without globals), with and without comment capture, over one to three chained source files with hostile layout, is looked up in the reference token stream of its source file at the reference offset of its line/column; names of renamed identifiers, comma runs, stripped string continuations, source-file attribution and the inserted-semicolon exemption are handled as the statement says.',
    note=R1NOTE + ' harness/positions.py for line/column arithmetic.',
    technique='Hypothesis property-based testing; fragment positions checked against a reference tokenisation of the source'),
 'C11': dict(
    text='calmjs and reference trees of hostile-layout programs (both comment modes) are walked in parallel; every node position must be self-consistent under reference line counting and sit on the node\'s first or operator token inside its extent, and every literal-token table entry must designate a reference token with that text; placeholders of omitted for-clauses and inserted semicolons are exempted exactly as stated.',
    note=R1NOTE + ' harness/positions.py for line/column arithmetic.',
    technique='Hypothesis property-based testing; parallel tree walk against a reference parse with token extents'),
})
CHECKS.update({
 'C09': dict(
    text='Real fragment streams of five printer configurations over one to three chained sources, and Hypothesis-generated well-formed synthetic streams (newlines anywhere in fragment text, implied/explicit/unmapped positions, renamed fragments, several sources, NotImplemented), each with normalisation on and off, are written through sourcemap.write/encode_sourcemap and decoded by an independent Source Map V3 decoder; every explicit fragment must decode to its own source, line, column and name, and the structural clauses of the statement are checked on the map.',
    note='Trusted: harness/ref_sourcemap.py (decoder from the V3 text) and harness/ref_vlq.py, self-tested at the start of each run; the generated-position tracker in props/c09.py.',
    technique='Hypothesis property-based testing (synthetic stream generator) + round trip through an independent decoder'),
 'C13': dict(
    text='Grammar-derived programs rendered with comments of all kinds in Hypothesis-chosen gaps: acceptance and tree with/without capture, verbatim/located/ordered/unique attached comments against the reference lexer\'s comment list, and the print -> re-parse-with-capture round trip (same tree by calmjs and by the reference parser, same comment sequence); the same for a small pool of programs in interpreters of their own whose first rendering of comments went through another printer.',
    note=R1NOTE,
    technique='metamorphic (capture on/off) + round-trip property-based testing with Hypothesis'),
})
CHECKS.update({
 'C19': dict(
    text='Hypothesis-generated JSON values, written by the harness\'s own serialiser with drawn number and string spellings and white space, embedded in four binding contexts with fold_ops off and on; ast_to_dict must yield under the bound name exactly json.loads of the literal text by typed equality, and no other key.',
    note='Trusted: json.loads of the standard library as reference reading; the serialiser in props/c19.py only emits text valid in both JSON and ES5 (asserted on every case).',
    technique='Hypothesis property-based testing with a differential oracle (json.loads)'),
})
CHECKS.update({
 'C07': dict(
    text='Scope-shaped generated programs (colliding name pool incl. the generated names), grammar-derived programs and wide scopes of 60-500 (thorough 3000) declarations under all 12 configurations (3 printers x obfuscate_globals x shadow_funcname): base and obfuscated outputs are parsed by the reference front end and resolved by an independent ES5 scope resolver; token streams/layout must agree outside identifier positions, each occurrence must resolve to the same declaring scope / label / free status, the renaming must be a bijection per scope, free and (unless requested) program-level names keep their spelling, and the output must parse.',
    note=R1NOTE + ' Reference scope resolver harness/ref_scope.py (self-tested on hand-resolved programs).',
    technique='Hypothesis property-based testing (scope-shaped generator) with a binding-isomorphism oracle from a reference scope resolver'),
})
CHECKS.update({
 'C14': dict(
    text='Hypothesis rule-based state machine over a pool of trees and printer objects of all configurations (pretty, 16 minify flag combinations, obfuscate+indent composition, default): full prints, abandoned generators, raising prints, new printers/trees and shortcut calls in generated order; a reused printer must reproduce the fragment list of a fresh printer, and after every step deep fingerprints of all pooled trees and of the shared rule tables must be unchanged.',
    note='The reference for one (configuration, tree) pair is the fragment list of a fresh printer of the code under test: the check decides reusability and purity over histories, not the correctness of a single print.',
    technique='stateful (model-based) property testing with Hypothesis RuleBasedStateMachine; history invariant + fresh-object differential'),
 'C15': dict(
    text='Expected outcome of each of 32 (text, comment flag) calls computed in a fresh interpreter; all call sequences up to length 2 (quick) / 3 (thorough) executed in one process and compared (exhaustive for that bound), Hypothesis-generated histories up to 200 steps interleaving printing and bare lexing, and thread-pool stress under four switch intervals.',
    note='Thread interleavings are sampled, not enumerated (no schedule control): the concurrent half is randomised stress. Outcomes come from the code under test in a fresh process.',
    technique='exhaustive short-history enumeration + Hypothesis history generation + randomised thread stress; fresh-process differential oracle'),
})
CHECKS.update({
 'C18': dict(
    category='fault_enumeration',
    text='Hypothesis-generated scenarios of io.read / io.write over recording stream doubles (stream arrangements, factories vs open streams, absolute / relative / missing names, normalisation flags, sourceMappingURL modes); each scenario is run fault-free against the lower-level API (printer text, sourcemap.write, encode) and then once per event - every factory call, read, parser call, fragment pulled, write and writelines - with a marker exception injected at exactly that event; closing discipline and exception propagation are checked on every run.',
    note='Faults are injected on the enumerated event kinds, not on close(); the lower-level API of the library itself is the reference for the map content (C09 checks that API).',
    technique='fault-point enumeration over Hypothesis-generated scenarios with recording doubles'),
})
CHECKS.update({
 'C17': dict(
    text='For generated programs, single-token mutants, short token strings and repository snippets (both comment modes) the outcome - tree dump with positions and comments, or exception type and message - is compared between the default parser on tables produced by `optimize --build`, a parser with lex/yacc optimisation off on private table names (in-memory build and signature-checked re-read, alternated by purging the private module every 50 texts), and an interpreter on a second copy whose table modules were purged and regenerated by the optimize helper; the regenerated table modules are also compared with the first build.',
    note='Outcomes are compared between configurations of the code under test (differential across table modes); single-parse correctness is C03.',
    technique='differential property-based testing across parser table configurations (Hypothesis)'),
})
