NOTES = ('Single entry point ./check <ID> --tier quick|thorough [--replay FILE]; exit 0 held, 1 violation '
         '(VIOLATION line), 2 harness error. Known findings live in known_findings.json (read-only at run time).')
NOT_APPLICABLE = {}
CHECKS = {
 'C10': dict(
    text='Exhaustive enumeration of a symmetric integer range plus all power-of-32 boundaries up to 400 bits, plus Hypothesis-generated integers, lists, mappings structures and grammar-built canonical VLQ strings; round trips at all three levels and a differential against an independent codec. Exhaustive for the stated range, sampled beyond it.',
    note='Trusted: the 20-line reference codec in harness/ref_vlq.py (validated on worked examples at start of each run).',
    technique='exhaustive enumeration + Hypothesis property-based testing; round-trip and differential oracle'),
}
