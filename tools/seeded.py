#!/venv/bin/python
"""Sensitivity tooling for seeded changes (development machinery, not a registered check).

  seeded.py verify <dir>            confirm a candidate: patch applies, repository tests pass with it,
                                    demo.py passes on the clean tree and fails on the patched tree
  seeded.py run <dir> [C07 ...]     run the owning check(s) (quick tier, several seeds) against a scratch
                                    copy of /repo with the patch applied (VERIF_REPO); report caught / missed
  seeded.py all [suffix ...]        `run` for every directory under /verif/seeded (or those whose name ends with a
                                    given suffix), write sensitivity/report.json

<dir> holds patch.diff, demo.py, meta.json.  Scratch copies live under the system temp dir and are removed.
"""
import json
import os
import shutil
import subprocess
import sys
import tempfile
import time

HERE = os.path.dirname(os.path.dirname(os.path.abspath(__file__)))
PY = '/venv/bin/python'

PYRUN = r'''
import os, runpy, shutil, subprocess, sys, tempfile
wt, script = sys.argv[1], sys.argv[2]
tmp = tempfile.mkdtemp(prefix='calmjs-pyrun-')
try:
    dst = os.path.join(tmp, 'src', 'calmjs', 'parse')
    shutil.copytree(os.path.join(wt, 'src', 'calmjs', 'parse'), dst,
                    ignore=shutil.ignore_patterns('__pycache__', '*.pyc', 'lextab_*', 'yacctab_*'))
    src = os.path.join(tmp, 'src')
    boot = ("import sys; sys.path.insert(0, %r); import calmjs; "
            "calmjs.__path__ = [%r] + [p for p in calmjs.__path__]; " % (src, os.path.join(src, 'calmjs')))
    env = dict(os.environ, PYTHONPATH=src, PYTHONDONTWRITEBYTECODE='1')
    subprocess.check_call([sys.executable, '-c', boot + "import runpy; sys.argv=['optimize','--build']; "
                           "runpy.run_module('calmjs.parse.parsers.optimize', run_name='__main__')"], env=env)
    code = boot + ("import calmjs.parse, runpy; sys.argv = sys.argv[1:]; runpy.run_path(sys.argv[0], run_name='__main__')")
    rc = subprocess.call([sys.executable, '-c', code, script] + sys.argv[3:], env=env)
finally:
    shutil.rmtree(tmp, ignore_errors=True)
sys.exit(rc)
'''


def scratch_repo(patch=None):
    tmp = tempfile.mkdtemp(prefix='calmjs-seeded-')
    dst = os.path.join(tmp, 'repo')
    shutil.copytree('/repo', dst, ignore=shutil.ignore_patterns('.git', '__pycache__', '*.pyc', 'lextab_*', 'yacctab_*'))
    if patch:
        p = subprocess.run(['patch', '-p1', '-s', '-i', os.path.abspath(patch)], cwd=dst, capture_output=True, text=True)
        if p.returncode != 0:
            shutil.rmtree(tmp, ignore_errors=True)
            raise RuntimeError('patch does not apply: %s %s' % (p.stdout, p.stderr))
    return tmp, dst


def run_demo(repo, demo):
    p = subprocess.run([PY, '-c', PYRUN, repo, demo], capture_output=True, text=True, timeout=600)
    return p.returncode, (p.stdout + p.stderr)[-800:]


def verify(d):
    patch = os.path.join(d, 'patch.diff')
    demo = os.path.join(d, 'demo.py')
    out = {'dir': d}
    tmp, clean = scratch_repo()
    try:
        rc, o = run_demo(clean, demo)
        out['demo_on_clean'] = rc
        out['demo_on_clean_tail'] = o[-200:]
    finally:
        shutil.rmtree(tmp, ignore_errors=True)
    tmp, patched = scratch_repo(patch)
    try:
        rc, o = run_demo(patched, demo)
        out['demo_on_patched'] = rc
        out['demo_on_patched_tail'] = o[-300:]
        p = subprocess.run([PY, os.path.join(HERE, 'tools', 'run_repo_tests.py')], env=dict(os.environ, VERIF_REPO=patched),
                           capture_output=True, text=True, timeout=1800)
        out['repo_tests_rc'] = p.returncode
        out['repo_tests_tail'] = p.stdout.strip().splitlines()[-1] if p.stdout.strip() else p.stderr[-200:]
    finally:
        shutil.rmtree(tmp, ignore_errors=True)
    out['confirmed'] = (out['demo_on_clean'] == 0 and out['demo_on_patched'] != 0 and out['repo_tests_rc'] == 0)
    return out


def run_checks(d, props=None, seeds=(1, 2, 3), tier='quick'):
    meta = json.load(open(os.path.join(d, 'meta.json')))
    props = props or [meta['property']]
    tmp, patched = scratch_repo(os.path.join(d, 'patch.diff'))
    res = {'dir': os.path.basename(d.rstrip('/')), 'checks': {}}
    try:
        for prop in props:
            runs = []
            for s in seeds:
                t0 = time.time()
                p = subprocess.run([os.path.join(HERE, 'check'), prop, '--tier', tier, '--no-evidence', '--seed', str(s)],
                                   env=dict(os.environ, VERIF_REPO=patched, VERIF_REPLAY_DIR=os.path.join(tmp, 'replays')),
                                   capture_output=True, text=True, cwd=HERE, timeout=7200)
                viol = [l for l in p.stdout.splitlines() if l.startswith('VIOLATION')]
                det = [l for l in p.stdout.splitlines() if l.startswith('detail:')]
                runs.append({'seed': s, 'rc': p.returncode, 'violations': len(viol), 'wall_s': round(time.time() - t0, 1),
                             'first_detail': det[0][:300] if det else (p.stdout[-300:] if p.returncode == 2 else '')})
                if p.returncode == 1:
                    break
            res['checks'][prop] = {'caught': any(r['rc'] == 1 for r in runs), 'runs': runs}
    finally:
        shutil.rmtree(tmp, ignore_errors=True)
    return res


def main():
    cmd = sys.argv[1]
    if cmd == 'verify':
        print(json.dumps(verify(sys.argv[2]), indent=1))
    elif cmd == 'run':
        print(json.dumps(run_checks(sys.argv[2], sys.argv[3:] or None), indent=1))
    elif cmd == 'all':
        base = os.path.join(HERE, 'seeded')
        report = []
        only = sys.argv[2:]
        for name in sorted(os.listdir(base)):
            if only and not any(name.endswith(x) or name == x for x in only):
                continue
            d = os.path.join(base, name)
            if os.path.isfile(os.path.join(d, 'patch.diff')):
                meta = json.load(open(os.path.join(d, 'meta.json')))
                if meta.get('superseded_by'):
                    print(name, 'superseded')
                    continue
                # run the checks recorded as catching the change (the owner, or another property's check)
                props = sorted(k for k, v in meta.get('checks_run', {}).items() if v.get('caught')) or None
                try:
                    r = run_checks(d, props)
                except RuntimeError as e:
                    print(name, 'ERROR', str(e)[:200])
                    sys.stdout.flush()
                    report.append({'dir': name, 'error': str(e)[:300]})
                    continue
                print(name, {k: v['caught'] for k, v in r['checks'].items()})
                sys.stdout.flush()
                report.append(r)
        if not only:
            os.makedirs(os.path.join(HERE, 'sensitivity'), exist_ok=True)
            json.dump(report, open(os.path.join(HERE, 'sensitivity', 'report.json'), 'w'), indent=1)


if __name__ == '__main__':
    main()
