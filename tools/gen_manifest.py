#!/venv/bin/python
"""Regenerate MANIFEST.json from tools/manifest_src.py data (kept valid at all times)."""
import json, os, sys
here = os.path.dirname(os.path.dirname(os.path.abspath(__file__)))
sys.path.insert(0, os.path.join(here, 'tools'))
import manifest_src as S
ids = [json.loads(l)['id'] for l in open(os.path.join(here, 'properties.jsonl'))]
checks = []
for pid in ids:
    if pid not in S.CHECKS:
        continue
    c = S.CHECKS[pid]
    checks.append({
        'property_id': pid,
        'quick_cmd': './check %s --tier quick' % pid,
        'thorough_cmd': './check %s --tier thorough' % pid,
        'evidence_file': 'evidence/%s.json' % pid,
        'replay_cmd_template': './check %s --replay {path}' % pid,
        'engine': 'pbt-harness',
        'level_claimed': {'category': c.get('category', 'exploration'), 'text': c['text'],
                          'design_ref': 'DESIGN.md section 4, %s' % pid},
        'level_note': c['note'],
        'technique': c['technique'],
    })
na = [{'property_id': pid, 'reason': S.NOT_APPLICABLE.get(pid, 'check not built yet (work in progress)')}
      for pid in ids if pid not in S.CHECKS]
m = {
    'version': 1,
    'setup_cmd': './setup.sh',
    'hooks': {
        'guard': 'CALMJS_PARSE_VERIF',
        'enable': 'no source hooks: checks copy /repo/src/calmjs/parse to a scratch dir, regenerate ply tables there and import that copy (CALMJS_PARSE_VERIF=1 is set in workers but no repository code reads it)',
        'baseline_off_cmd': 'cd /repo && /venv/bin/python -m pytest -ra -q -p no:cacheprovider --timeout=900 --continue-on-collection-errors',
        'source_commits': [],
        'add_only': True,
    },
    'engines': [{'name': 'pbt-harness', 'path': 'harness/', 'serves_properties': [c['property_id'] for c in checks],
                 'kind_free_text': 'Hypothesis strategies / state machines, exhaustive enumeration of small finite domains, fault-point enumeration; independent reference models (ES5 front end, scope resolver, source-map decoder, VLQ codec) as oracles'}],
    'checks': checks,
    'notes': S.NOTES,
    'not_applicable': na,
}
json.dump(m, open(os.path.join(here, 'MANIFEST.json'), 'w'), indent=1)
print('checks:', [c['property_id'] for c in checks], 'not_applicable:', [n['property_id'] for n in na])
