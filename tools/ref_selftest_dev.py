#!/venv/bin/python
import sys, os, time, collections
here = os.path.dirname(os.path.dirname(os.path.abspath(__file__)))
sys.path.insert(0, here)
from harness import ref_es5, gen_program, canon
from harness.hyp import run_given
N = int(sys.argv[1]) if len(sys.argv) > 1 else 500
stats = collections.Counter(); kinds = collections.Counter(); bad = []
sizes = []
def body(p):
    stats['n'] += 1
    try:
        r = ref_es5.parse(p['text'])
    except ref_es5.RefSyntaxError as e:
        stats['reject'] += 1
        if len(bad) < 5: bad.append(('REJECT', str(e), p['text'], p['level']))
        return
    if r.tree != p['tree']:
        stats['treediff'] += 1
        if len(bad) < 5: bad.append(('TREE', canon.first_diff(r.tree, p['tree']), p['text'], p['level']))
    n, d, ks = canon.tree_stats(p['tree'])
    sizes.append(len(p['toks']))
    for k in ks: kinds[k] += 1
t = time.time()
run_given(gen_program.program_strategy(), body, N, 1)
print(stats, 'time %.1f' % (time.time() - t))
print('tokens: mean %.1f max %d' % (sum(sizes) / max(1, len(sizes)), max(sizes or [0])))
print(sorted(kinds.items(), key=lambda kv: kv[1]))
for b in bad: print(b)
