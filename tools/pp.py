#!/venv/bin/python
"""Dev probe: print argument programs with pretty/minify printers."""
import sys, os, ast
here = os.path.dirname(os.path.dirname(os.path.abspath(__file__)))
sys.path.insert(0, here)
from harness import build
root = build.make_copy(); build.activate(root)
from calmjs.parse import es5
from calmjs.parse.unparsers.es5 import pretty_print, minify_print
for a in sys.argv[1:]:
    try: src = ast.literal_eval(a) if a[:1] in '"\'' else a
    except Exception: src = a
    print('SRC', repr(src))
    try:
        t = es5(src)
    except Exception as e:
        print('  parse error', e); continue
    for name, f in (('pretty', lambda: pretty_print(t)), ('minify', lambda: minify_print(t)),
                    ('dropsemi', lambda: minify_print(t, drop_semi=True)), ('obf', lambda: minify_print(t, obfuscate=True, obfuscate_globals=True))):
        try: print('  %-8s %r' % (name, f()))
        except Exception as e: print('  %-8s ERROR %r' % (name, e))
