#!/bin/sh
# usage: tools/run_all.sh [seed] [tier]  - every registered check once; prints one summary line each
seed=${1:-1}; tier=${2:-quick}
cd "$(dirname "$0")/.."
for p in C01 C02 C03 C04 C05 C06 C07 C08 C09 C10 C11 C12 C13 C14 C15 C16 C17 C18 C19 C20; do
  out=$(VERIF_SEED=$seed ./check $p --tier $tier 2>&1); rc=$?
  echo "$p rc=$rc $(echo "$out" | grep -v '^KNOWN' | tail -1 | cut -c1-160)"
  if [ $rc -ne 0 ]; then echo "$out" | grep -E "^detail|^VIOLATION|HARNESS" | head -6 | cut -c1-400; fi
done
