#!/venv/bin/python
"""Run the repository's own test suite against the *working tree* of /repo (or
VERIF_REPO), not against the site-packages wheel (DESIGN F1): copy the tree to a
scratch dir, build tables there, run pytest with calmjs.__path__ redirected."""
import os, shutil, subprocess, sys, tempfile
repo = os.environ.get('VERIF_REPO', '/repo')
tmp = tempfile.mkdtemp(prefix='calmjs-repotests-')
try:
    dst = os.path.join(tmp, 'repo')
    shutil.copytree(repo, dst, ignore=shutil.ignore_patterns('.git', '__pycache__', '*.pyc'))
    src = os.path.join(dst, 'src')
    boot = ("import sys; sys.path.insert(0, %r); import calmjs; "
            "calmjs.__path__ = [%r] + [p for p in calmjs.__path__]; " % (src, os.path.join(src, 'calmjs')))
    env = dict(os.environ, PYTHONPATH=src, PYTHONDONTWRITEBYTECODE='1')
    env.pop('CALMJS_PARSE_VERIF', None)
    subprocess.check_call([sys.executable, '-c', boot +
                           "import runpy; sys.argv=['optimize','--build']; "
                           "runpy.run_module('calmjs.parse.parsers.optimize', run_name='__main__')"],
                          env=env, cwd=dst)
    code = boot + ("import calmjs.parse, pytest; print('testing', calmjs.parse.__file__); "
                   "sys.exit(pytest.main(['-q', '-p', 'no:cacheprovider', '-x', '--timeout=900'] + sys.argv[1:]))")
    rc = subprocess.call([sys.executable, '-c', code] + sys.argv[1:], env=env, cwd=dst)
finally:
    shutil.rmtree(tmp, ignore_errors=True)
sys.exit(rc)
