#!/venv/bin/python
"""Dev probe: show fragments of a printer for a source."""
import sys, os
here = os.path.dirname(os.path.dirname(os.path.abspath(__file__)))
sys.path.insert(0, here)
from harness import build
root = build.make_copy(); build.activate(root)
from calmjs.parse import es5
from props.c08 import make_printer
from harness import ref_es5
src = sys.argv[1]; pn = sys.argv[2] if len(sys.argv) > 2 else 'min'
wc = len(sys.argv) > 3
t = es5(src, with_comments=wc); t.sourcepath = 'a.js'
for f in make_printer(pn)(t): print(tuple(f))
print(ref_es5.parse(src).semis)
