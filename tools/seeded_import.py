#!/venv/bin/python
"""Import confirmed seeded changes into /verif/seeded/<id>/ from candidate dirs + batch logs.
usage: seeded_import.py <log file>... (candidate dirs are read from the VERIFY lines)"""
import json, os, re, shutil, sys
here = os.path.dirname(os.path.dirname(os.path.abspath(__file__)))
verify, runs = {}, {}
for log in sys.argv[1:]:
    for line in open(log, errors='replace'):
        m = re.match(r'VERIFY (\S+) confirmed=(\w+) clean=(\S+) patched=(\S+) tests=(.*)', line)
        if m:
            verify[os.path.basename(m.group(1))] = {'dir': m.group(1), 'confirmed': m.group(2) == 'True',
                                                    'demo_on_clean_rc': m.group(3), 'demo_on_patched_rc': m.group(4),
                                                    'repo_tests': m.group(5).strip()}
        m = re.match(r'RUN (\S+) (C\d+) caught=(\w+) (\[.*?\]) ?(.*)', line)
        if m:
            runs.setdefault(m.group(1), {})[m.group(2)] = {'caught': m.group(3) == 'True', 'runs': m.group(4),
                                                            'first_detail': m.group(5)[:300]}
for name, v in sorted(verify.items()):
    if not v['confirmed']:
        print('NOT CONFIRMED', name, v)
        continue
    dst = os.path.join(here, 'seeded', name)
    os.makedirs(dst, exist_ok=True)
    for f in ('patch.diff', 'demo.py'):
        shutil.copy(os.path.join(v['dir'], f), os.path.join(dst, f))
    meta = json.load(open(os.path.join(v['dir'], 'meta.json')))
    old = {}
    if os.path.exists(os.path.join(dst, 'meta.json')):
        old = json.load(open(os.path.join(dst, 'meta.json')))
    meta['breaks_property'] = meta.get('property')
    meta['confirmed_by_me'] = {
        'how': 'tools/seeded.py verify: patch applied to a scratch copy of /repo; repository test suite run against the '
               'patched copy (tools/run_repo_tests.py); demo.py run against clean and patched copies',
        'repo_tests_on_patched_tree': v['repo_tests'], 'demo_rc_clean': v['demo_on_clean_rc'],
        'demo_rc_patched': v['demo_on_patched_rc']}
    checks = dict(old.get('checks_run', {}))
    checks.update(runs.get(name, {}))
    meta['checks_run'] = checks
    json.dump(meta, open(os.path.join(dst, 'meta.json'), 'w'), indent=1, sort_keys=True)
    print('imported', name, {k: c['caught'] for k, c in checks.items()})
