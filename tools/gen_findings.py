#!/venv/bin/python
import json, os, sys
here = os.path.dirname(os.path.dirname(os.path.abspath(__file__)))
sys.path.insert(0, os.path.join(here, 'tools'))
import findings_src
json.dump({'findings': findings_src.FINDINGS}, open(os.path.join(here, 'known_findings.json'), 'w'), indent=1, ensure_ascii=True)
print(len(findings_src.FINDINGS), 'findings')
