#!/venv/bin/python
import sys, os, time, collections, re
here = os.path.dirname(os.path.dirname(os.path.abspath(__file__)))
sys.path.insert(0, here)
from harness import build
root = build.make_copy(); build.activate(root)
from calmjs.parse import es5
from calmjs.parse.exceptions import ECMASyntaxError
from harness import ref_es5, gen_program, canon
from harness.hyp import run_given
N = int(sys.argv[1]) if len(sys.argv) > 1 else 500
levels = tuple(int(x) for x in (sys.argv[2] if len(sys.argv) > 2 else '0123'))
lsps = not (len(sys.argv) > 3 and sys.argv[3] == 'nolsps')
stats = collections.Counter(); bad = []
def body(p):
    if '\u65e5\u672c' in p['text'] or '\\ ' in p['text']: return
    stats['n'] += 1
    try:
        t = es5(p['text'])
    except ECMASyntaxError as e:
        stats['reject'] += 1
        if len(bad) < 4000: bad.append(('REJECT', str(e), p['text'], p['level']))
        return
    except Exception as e:
        stats['exc'] += 1
        if len(bad) < 4000: bad.append(('EXC', repr(e), p['text'], p['level']))
        return
    c = canon.canon_calmjs(t)
    if c != p['tree']:
        stats['treediff'] += 1
        if len(bad) < 4000: bad.append(('TREE', canon.first_diff(c, p['tree']), p['text'], p['level']))
t = time.time()
run_given(gen_program.program_strategy(layout_levels=levels, lsps=lsps), body, N, 1)
print(stats, 'time %.1f' % (time.time() - t))
seen=set()
for b in sorted(bad, key=lambda b: len(b[2])):
    k=(b[0], re.sub(r"\d+:\d+","L:C",b[1])[:60])
    if k in seen: continue
    seen.add(k); print(b)
