#!/venv/bin/python
"""Dev tool: compare R1 with calmjs on the seed corpus."""
import json, os, sys
here = os.path.dirname(os.path.dirname(os.path.abspath(__file__)))
sys.path.insert(0, here)
from harness import build
root = build.make_copy(); build.activate(root)
from calmjs.parse import es5
from calmjs.parse.exceptions import ECMASyntaxError
from harness import ref_es5, canon
n = agree = 0
for line in open(os.path.join(here, 'corpus', 'seed.jsonl')):
    r = json.loads(line); src = r['src']; n += 1
    try:
        t = es5(src); ca = True
    except ECMASyntaxError as e:
        ca = False; cerr = str(e)
    except Exception as e:
        ca = None; cerr = repr(e)
    try:
        ref = ref_es5.parse(src); ra = True
    except ref_es5.RefSyntaxError as e:
        ra = False; rerr = str(e)
    if ca != ra:
        print('ACCEPT-DIFF calmjs=%s ref=%s %r  | %s' % (ca, ra, src[:100], (cerr if not ca else rerr)))
        continue
    if ca:
        try:
            c = canon.canon_calmjs(t)
        except canon.CanonError as e:
            print('CANON', e, repr(src[:80])); continue
        if c != ref.tree:
            print('TREE-DIFF %r\n   %s' % (src[:100], canon.first_diff(c, ref.tree)))
            continue
    agree += 1
print(n, agree)
