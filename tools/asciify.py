#!/venv/bin/python
"""Replace non-ASCII characters in our Python sources by \\uXXXX escapes (all occur in non-raw string literals/comments)."""
import glob, os
here = os.path.dirname(os.path.dirname(os.path.abspath(__file__)))
for p in glob.glob(here + '/harness/*.py') + glob.glob(here + '/props/*.py') + glob.glob(here + '/tools/*.py'):
    s = open(p, encoding='utf-8').read()
    t = ''.join(c if ord(c) < 128 else ('\\u%04x' % ord(c) if ord(c) < 0x10000 else '\\U%08x' % ord(c)) for c in s)
    if t != s:
        open(p, 'w', encoding='utf-8').write(t)
        print('escaped', p, sum(1 for c in s if ord(c) >= 128))
