"""C07 - name obfuscation is a consistent, capture-free renaming."""
from hypothesis import strategies as st

from harness.runner import Acc
from harness import pdiff, gen_program, gen_scope, ref_es5, ref_scope, unparse
from props import c03

PROPERTY = 'C07'
LEVEL = 'exploration'
RULE = ('scope-shaped programs (G7: nested functions, parameters, hoisted vars, named function expressions, catch '
        'clauses, closures, labels, property names equal to variable names, free names, all from a small colliding '
        'pool that contains the names the obfuscator generates), G1 programs without with/eval/block-level function '
        'declarations (object literals with getter/setter bodies followed by more code), and wide scopes declaring 56..500 (thorough: 3000) names with free names spelled like generated ones (a, aa, ab / _, a_, _a, __) so that two-letter names past '
        '`do`, `if`, `in` (and three-letter names) are generated; x obfuscate_globals x shadow_funcname x printer in '
        '{minify, minify+drop_semi, Unparser(rules=(obfuscate, indent))}. Oracle: base = same printer without '
        'obfuscation; both outputs are parsed by the reference front end and resolved by the reference scope '
        'resolver R2. (1) token streams and inter-token text are identical except identifier tokens in binding/'
        'reference/label position; (2) occurrence i resolves in both outputs to the same declaring scope (or both '
        'free, or the same label), and within a scope the renaming is a bijection; (3) free names, and names bound '
        'at program level unless obfuscate_globals, keep their spelling; (4)/(5) the output parses with calmjs and '
        'the reference (a generated reserved word would not). non-trivial = a closure reference crossing a function '
        'boundary or a catch / named function expression / label, and at least one name actually renamed; distinct '
        'by (source, configuration)')
ASSUMPTIONS = c03.ASSUMPTIONS + ['reference scope resolver harness/ref_scope.py (ES5 section 10), self-tested on '
                                 'hand-resolved programs at the start of each run']


_PRINTER_CACHE = {}


def printers(kind, og, sf):
    """printer objects are built once per worker and *reused* for every program, the usage the
    library documents; a printer whose second use differs from its first is thereby exercised"""
    key = (kind, og, sf)
    if key not in _PRINTER_CACHE:
        _PRINTER_CACHE[key] = _make_printers(kind, og, sf)
    return _PRINTER_CACHE[key]


def _make_printers(kind, og, sf):
    from calmjs.parse.unparsers.es5 import minify_printer, Unparser
    from calmjs.parse import rules
    from calmjs.parse.lexers.es5 import Lexer
    if kind == 'min':
        return minify_printer(), minify_printer(obfuscate=True, obfuscate_globals=og, shadow_funcname=sf)
    if kind == 'min_ds':
        return (minify_printer(drop_semi=True),
                minify_printer(obfuscate=True, obfuscate_globals=og, shadow_funcname=sf, drop_semi=True))
    return (Unparser(rules=(rules.indent('  '),)),
            Unparser(rules=(rules.obfuscate(obfuscate_globals=og, shadow_funcname=sf,
                                            reserved_keywords=Lexer.keywords_dict.keys()), rules.indent('  '))))


def gaps(ref):
    out = []
    pos = 0
    for k in ref.tokens:
        out.append(ref.text[pos:k.start])
        pos = k.end
    out.append(ref.text[pos:])
    return out


def check(acc, opens, src, kind, og, sf, origin, top=True):
    tree, ref_src = unparse.source_in_domain(acc, src)
    if tree is None:
        return None
    occs_src, hazards, _ = ref_scope.resolve(ref_src)
    if hazards:
        for h in hazards:
            acc.skipped['out_of_scope_' + h] += 1
        return None
    case = {'text': src, 'printer': kind, 'obfuscate_globals': og, 'shadow_funcname': sf, 'origin': origin}
    try:
        pb, po = printers(kind, og, sf)
        base = ''.join(f.text for f in pb(tree))
        obf = ''.join(f.text for f in po(tree))
    except Exception as e:
        acc.fail(None, case, {'bucket': 'print_raises:' + type(e).__name__, 'error': repr(e)[:300]}, opens)
        return None
    rb = pdiff.ref_parse(base)
    if rb[0] != 'ok' or rb[1].tree != ref_src.tree and kind == 'indent':
        acc.skipped['base_output_problem_is_C01_C02'] += 1
        return None
    ro = pdiff.ref_parse(obf)
    detail = {'base': base, 'obfuscated': obf}

    def fail(bucket, **kw):
        d = dict(detail)
        d.update(kw)
        d['bucket'] = bucket
        acc.fail(classify(src, ref_src, occs_src, d, (kind, og, sf) if top else None), case, d, opens)
        return None
    if ro[0] != 'ok':
        return fail('reference_rejects_obfuscated_output', error=str(ro[1]))
    c = pdiff.calmjs_parse(obf)
    if c[0] != 'ok':
        return fail('calmjs_rejects_obfuscated_output', error=repr(c[1])[:200])
    rb, ro = rb[1], ro[1]
    ob, hb, _ = ref_scope.resolve(rb)
    oo, ho, scopes_o = ref_scope.resolve(ro)
    if len(rb.tokens) != len(ro.tokens):
        return fail('token_count_differs', base_tokens=len(rb.tokens), obf_tokens=len(ro.tokens))
    idx_b = set(o.tok for o in ob)
    for i, (a, b) in enumerate(zip(rb.tokens, ro.tokens)):
        if i in idx_b:
            if b.type != 'ident':
                return fail('identifier_became_%s' % b.type, token=[a.text, b.text])
            continue
        if (a.type, a.text) != (b.type, b.text):
            return fail('non_identifier_token_differs', token=[a.text, b.text], index=i)
    if gaps(rb) != gaps(ro):
        gb, go = gaps(rb), gaps(ro)
        i = next(k for k in range(len(gb)) if gb[k] != go[k])
        return fail('layout_differs', gap_index=i, base_gap=gb[i], obf_gap=go[i])
    if [(o.tok, o.role) for o in ob] != [(o.tok, o.role) for o in oo]:
        return fail('occurrence_structure_differs')
    mapping = {}
    inverse = {}
    renamed = 0
    crossing = False
    for a, b in zip(ob, oo):
        ka, kb = a.binding, b.binding
        if ka[0] != kb[0]:
            return fail('binding_kind_changes', name=a.name, new=b.name, base_binding=list(ka), obf_binding=list(kb))
        if ka[0] in ('free', 'free_label'):
            if a.name != b.name:
                return fail('free_name_renamed', name=a.name, new=b.name)
            continue
        if ka[0] == 'label':
            if ka[1] != kb[1]:
                return fail('label_target_changes', name=a.name)
            if a.name != b.name:
                renamed += 1
            continue
        # declared variable: same declaring scope, bijective renaming within the scope
        if ka[1] != kb[1]:
            return fail('declaring_scope_changes', name=a.name, new=b.name, base_scope=ka[1], obf_scope=kb[1])
        key = (ka[1], a.name)
        if mapping.setdefault(key, b.name) != b.name:
            return fail('one_variable_two_names', name=a.name, names=[mapping[key], b.name])
        ikey = (kb[1], b.name)
        if inverse.setdefault(ikey, a.name) != a.name:
            return fail('two_variables_one_name', names=[inverse[ikey], a.name], new=b.name)
        if ka[1] == 0 and not og and a.name != b.name:
            return fail('program_level_name_renamed', name=a.name, new=b.name)
        if a.name != b.name:
            renamed += 1
    # non-triviality accounting
    kinds = set(s.kind for s in scopes_o)
    nfunc = sum(1 for s in scopes_o if s.kind == 'function')
    has_special = ('catch' in kinds or 'funcname' in kinds or any(o.role.startswith('label') for o in ob))
    longest = max([len(o.name) for o in oo if o.binding[0] == 'var' and o.binding[1] != 0] or [0])
    return {'renamed': renamed, 'nfunc': nfunc, 'special': has_special, 'obf': obf, 'longest': longest}


def neutralise_funcexpr_names(ref_src):
    """give every named function expression a program-wide unique name (and rename the
    references that bind to it) -> (text, count)"""
    from harness.findings import Src
    occs, hz, scopes = ref_scope.resolve(ref_src)
    kinds = dict((s.uid, s.kind) for s in scopes)
    src = Src(ref_src)
    names = {}
    for o in occs:
        b = o.binding
        if b[0] == 'var' and kinds.get(b[1]) == 'funcname':
            names.setdefault(b[1], 'fx%dq' % len(names))
            src.toks[o.tok] = names[b[1]]
    return src.text(), len(names)


def classify(src, ref_src, occs, detail, cfg=None):
    """listed finding F-C07-1: the obfuscator declares the name of a named function expression
    in the *enclosing* scope, so another binding of the same spelling that is visible there
    (a free/global name, an outer declaration) is renamed, captured or merged with it.
    Recognised by neutralisation: make every function-expression name unique and re-run."""
    if cfg is None:
        return None
    text2, n = neutralise_funcexpr_names(ref_src)
    if not n or text2 == src:
        return None
    scratch = Acc()
    check(scratch, (), text2, cfg[0], cfg[1], cfg[2], 'neutralised', top=False)
    if not scratch.failures:
        return 'c07.funcexpr_name_declared_in_enclosing_scope'
    return None


def replay(case, acc):
    check(acc, (), case['text'], case['printer'], case['obfuscate_globals'], case['shadow_funcname'],
          case.get('origin', 'replay'))


from harness.shrink import text_shrinker  # noqa: E402
shrink = text_shrinker(replay, 'text')



WIDE_FREE = [('a', 'b', 'aa', 'ab', 'z', 'A'), ('_', 'a_', '_a', '__', 'Z', 'b_')]
CONFIGS = [(k, og, sf) for k in ('min', 'min_ds', 'indent') for og in (False, True) for sf in (False, True)]


def plan(tier, seed):
    from harness import refgate
    refgate.run(200 if tier == 'quick' else 2000)
    ref_scope.selftest()
    quick = tier == 'quick'
    n7, n1 = (1600, 800) if quick else (48000, 24000)
    shards = []
    for k in range(16):
        shards.append({'name': 'g7-%d' % k, 'kind': 'g7', 'n': n7 // 16, 'hseed': seed * 1000 + k})
        shards.append({'name': 'g1-%d' % k, 'kind': 'g1', 'n': n1 // 16, 'hseed': seed * 1000 + 100 + k})
    for n in ([60, 230, 500] if quick else [60, 230, 500, 3000]):
        shards.append({'name': 'wide-%d' % n, 'kind': 'wide', 'size': n, 'free': list(WIDE_FREE[0])})
    for n in ([56, 120] if quick else [56, 120, 300]):
        # free names spelled with the non-letter characters of the generator's alphabet
        shards.append({'name': 'wide_-%d' % n, 'kind': 'wide', 'size': n, 'free': list(WIDE_FREE[1])})
    shards.append({'name': 'corpus', 'kind': 'corpus'})
    return shards


def run_shard(shard):
    from harness.hyp import run_given
    acc = Acc()
    opens = shard['open_signatures']

    def one(src, cfg, origin, sample=True):
        kind, og, sf = cfg
        info = check(acc, opens, src, kind, og, sf, origin)
        nt = bool(info) and info['renamed'] >= 1 and (info['nfunc'] >= 2 or info['special'])
        acc.case((src, cfg), nt, {'source': src[:600], 'config': list(cfg), 'obfuscated': info['obf'][:600]}
                 if (info and sample) else None)
        acc.label('config_%s_g%d_s%d' % (kind, og, sf))
        if info:
            acc.label('longest_generated_name_%d' % info['longest'])
            acc.label('renamed_%s' % ('0' if info['renamed'] == 0 else '1-5' if info['renamed'] <= 5 else '6+'))
    if shard['kind'] == 'g7':
        strat = st.tuples(gen_scope.scope_program(), st.sampled_from(CONFIGS))
        run_given(strat, lambda x: one(x[0], x[1], 'g7'), shard['n'], shard['hseed'], acc)
    elif shard['kind'] == 'g1':
        cfg = gen_program.Config(with_stmt=False, func_decl_in_stmt=False)
        strat = st.tuples(gen_program.program_strategy(cfg=cfg, layout_levels=(1,)), st.sampled_from(CONFIGS))
        run_given(strat, lambda x: one(x[0]['text'], x[1], 'g1'), shard['n'], shard['hseed'], acc)
    elif shard['kind'] == 'wide':
        src = gen_scope.wide_scope(shard['size'], free=tuple(shard['free']))
        for rnd in range(2):  # twice: the second round runs on printer objects that were used before
            for cfg in CONFIGS:
                one(src if rnd == 0 else src + ' var second_round;', cfg, 'wide', sample=False)
        acc.samples.append({'wide_scope_declarations': shard['size'], 'source_head': src[:200]})
    else:
        for i, src in enumerate(c03.load_corpus()):
            one(src, CONFIGS[i % len(CONFIGS)], 'corpus')
            one(src, CONFIGS[(i + 5) % len(CONFIGS)], 'corpus')
    return acc.result()
