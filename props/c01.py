"""C01 - pretty-printed output parses back to the same tree and is a fixpoint."""
import json

from hypothesis import strategies as st

from harness.runner import Acc
from harness import pdiff, canon, gen_program, ref_es5, unparse
from props import c03

PROPERTY = 'C01'
LEVEL = 'exploration'
RULE = ('G1 programs (every statement/expression form and literal spelling, four layout regimes), the repository '
        'snippets that calmjs accepts, an enumerated family of nested array literals with holes in every position, every reserved word as a dotted property name (and the other kinds of expression end) as the value of the last property of an object literal - the place where pretty output ends a line without a semicolon, programs made long by one sibling list of 1200 (thorough: 5000) statements / declarations / arguments / parameters / properties / elements / clauses / operands, and the adjacency product of C02 (slot templates x operand classes; every 12th case per quick run), x indentation strings drawn from text(" \\t", max 8) incl. empty, or 9-40 characters long. Oracle: '
        'o = pretty_print(parse(src), ind); (a) calmjs re-parses o to the same canonical tree; (b) the independent '
        'reference parser R1 accepts o and reads the same tree; (c) pretty_print(parse(o), ind) == o byte for byte; (d) histories: a family of 330 member-access / sign / division programs over every literal spelling is printed in one process in drawn orders (forwards, backwards, again), each output judged by (a)-(c) and required to equal the first output for that program. '
        'Sources calmjs rejects are outside the quantifier, and sources on which calmjs and the reference parser already disagree belong to C03 (both counted, not judged). non-trivial = tree with >= 4 node kinds and '
        'depth >= 3; distinct by (source, indent)')
ASSUMPTIONS = c03.ASSUMPTIONS


def check(acc, opens, src, indent, origin):
    """returns dict(info) or None when src is outside the domain"""
    tree, _ref = unparse.source_in_domain(acc, src)
    if tree is None:
        return None
    case = {'text': src, 'indent': indent, 'origin': origin}
    try:
        t0 = canon.canon_calmjs(tree)
        o = unparse.pretty(tree, indent)
    except Exception as e:
        acc.fail(None, case, {'bucket': 'print_raises:' + type(e).__name__, 'error': repr(e)[:300]}, opens)
        return None
    info = {'tree': t0, 'output': o}
    r = pdiff.ref_parse(o)
    if r[0] != 'ok':
        acc.fail(classify(src, o, 'ref'), case, {'bucket': 'reference_rejects_output', 'output': o,
                                                 'error': str(r[1])}, opens)
        return info
    if r[1].tree != t0:
        acc.fail(classify(src, o, 'reftree'), case, {'bucket': 'reference_reads_other_tree', 'output': o,
                                                     'diff': canon.first_diff(r[1].tree, t0)}, opens)
        return info
    c2 = pdiff.calmjs_parse(o)
    if c2[0] != 'ok':
        acc.fail(classify(src, o, 'reparse'), case, {'bucket': 'calmjs_rejects_output', 'output': o, 'error': c2[1]}, opens)
        return info
    t1 = canon.canon_calmjs(c2[1])
    if t1 != t0:
        acc.fail(classify(src, o, 'tree'), case, {'bucket': 'reparse_tree_differs', 'output': o,
                                                  'diff': canon.first_diff(t1, t0)}, opens)
        return info
    o2 = unparse.pretty(c2[1], indent)
    if o2 != o:
        acc.fail(classify(src, o, 'fixpoint'), case, {'bucket': 'not_a_fixpoint', 'output': o, 'second': o2}, opens)
    return info


def classify(src, out, what):
    """calmjs rejecting or misreading *valid* printer output (the reference reads it as the source
    tree) is a parser-side disagreement on that output: attribute it to a listed parser finding
    when the neutralised output passes the parse differential"""
    if what not in ('reparse', 'tree'):
        return None
    from harness import findings
    f2, i2 = pdiff.compare(out)
    if f2 is None or f2['kind'] == 'exception':
        return None

    def rerun(t2):
        g, _ = pdiff.compare(t2)
        return g
    sig, _ = findings.classify_parse_failure(out, f2, i2, rerun)
    return sig


def replay(case, acc):
    if 'history' in case:
        run_history(acc, (), case['history'])
        return
    check(acc, (), case['text'], case['indent'], case.get('origin', 'replay'))


from harness.shrink import text_shrinker, ddmin  # noqa: E402
_text_shrink = text_shrinker(replay, 'text')


def shrink(failure, budget_s):
    case = failure['case']
    if not isinstance(case, dict) or 'history' not in case:
        return _text_shrink(failure, budget_s)
    import time
    want = tuple(failure['key'])
    best = {'f': failure}

    def still_fails(h):
        acc = Acc()
        try:
            run_history(acc, (), list(h))
        except Exception:
            return False
        for f in acc.failures:
            if tuple(f['key']) == want:
                best['f'] = f
                return True
        return False
    ddmin(list(case['history']), still_fails, time.time() + budget_s)
    return best['f']


# ---------------------------------------------------------------------------
# printing is a function of the tree: a family of small programs printed in one process in a drawn order

_OBJ = ['1', '10', '5', '15', '0', 'v1', 'a10', 'x5', '$0', '2.5', '1.5', '0.5', '.5', '0x10', '0x15', '0xf', '1e1',
        '1e5', '1E0', '017', '1.', '5.', '"s1"', "'5'", '(1)', '[1]', 'f1()', 'a[1]', '/re1/', '/5/', 'this', 'a', 'b5.c1']
_ACCESS = ['%s .p;', '%s .toFixed(2);', '%s .p = 1;', 'v = %s .p.q;', '%s["p"];', 'a = %s + +b;', 'a = %s - -1;',
           'a = b / %s;', 'a = %s in o;', 'a = typeof %s;']
HISTORY_FAMILY = [a % o for a in _ACCESS for o in _OBJ]


def run_history(acc, opens, history, one=None):
    """history: [[source, indent], ...] printed in this order by this process; every output is judged on its
    own (check) and must equal the first output seen for the same (source, indent)"""
    first = {}
    for i, (src, indent) in enumerate(history):
        scratch = Acc()
        info = check(scratch, opens, src, indent, 'history')
        for f in scratch.failures:
            # the replay unit is the history up to and including the failing print
            acc.fail(f.get('signature'), {'history': [list(h) for h in history[:i + 1]]},
                     dict(f['detail'] or {}, source=src, position_in_history=i), opens)
        for k, v in scratch.skipped.items():
            acc.skipped[k] += v
        for k, v in scratch.known.items():
            acc.known[k] += v
        if one is not None:
            one(src, indent, info)
        if info is None or scratch.failures:
            continue
        key = (src, indent)
        if key in first and first[key] != info['output']:
            acc.fail(None, {'history': [list(h) for h in history[:i + 1]]},
                     {'bucket': 'output_depends_on_earlier_prints', 'source': src, 'first': first[key],
                      'later': info['output'], 'position_in_history': i}, opens)
        first.setdefault(key, info['output'])



INDENTS = st.one_of(st.sampled_from(['  ', '    ', '\t', '', ' ']), st.text(alphabet=' \t', max_size=8),
                    st.text(alphabet=' \t', min_size=9, max_size=40))


def line_end_family():
    """the value of the last property of an object literal is the one place where the pretty printer ends a
    line with an arbitrary expression and no semicolon: every reserved word as a dotted property name, and the
    other kinds of expression end, in that place"""
    ends = ['it.' + w for w in sorted(gen_program.RESERVED_NAMES)] + [
        'a++', 'a--', 'b', '1', '1.', '/re/', '/re/g', 'function() {}', '{}', '[1]', '"s"', 'a.b', 'a()', 'new A',
        'this', '-a', 'typeof a', 'a in b', 'x ? y : z', 'a[0]', 'a / 2', 'it.get', 'it.set', 'null', 'true']
    for e in ends:
        yield 'x = {a: 1, b: %s};' % e
        yield 'f({p: %s}, {q: {r: %s}});\n++g;' % (e, e)
        yield 'y = {get a() { return %s }, b: %s}\n--h' % (e, e)


def plan(tier, seed):
    from harness import refgate
    refgate.run(200 if tier == 'quick' else 2000)
    n = 3200 if tier == 'quick' else 160000
    shards = [{'name': 'g1-%d' % k, 'kind': 'g1', 'n': n // 16, 'hseed': seed * 1000 + k} for k in range(16)]
    shards.append({'name': 'corpus', 'kind': 'corpus'})
    for k in range(32):
        shards.append({'name': 'adj-%d' % k, 'kind': 'adj', 'k': k, 'of': 32, 'stride': 12 if tier == 'quick' else 1})
    for n in ([1200] if tier == 'quick' else [1200, 5000]):
        shards.append({'name': 'long-%d' % n, 'kind': 'long', 'size': n})
    for k in range(4 if tier == 'quick' else 16):
        shards.append({'name': 'history-%d' % k, 'kind': 'history', 'n': 3 if tier == 'quick' else 12,
                       'hseed': seed * 1000 + 500 + k})
    return shards


def run_shard(shard):
    from harness.hyp import run_given
    acc = Acc()
    opens = shard['open_signatures']

    def one(src, indent, origin, level=None):
        info = check(acc, opens, src, indent, origin)
        nt = False
        if info:
            n, depth, kinds = canon.tree_stats(info['tree'])
            nt = len(kinds) >= 4 and depth >= 3
            for k in kinds:
                acc.label('kind_' + k)
        acc.case((src, indent), nt, {'source': src, 'indent': indent, 'output': info['output'] if info else None})
        acc.label('indent_%s' % ('empty' if indent == '' else 'tab' if set(indent) == {'\t'} else
                                 'space' if set(indent) == {' '} else 'mixed'))
    if shard['kind'] == 'long':
        # size through the length of sibling lists, not through nesting
        import sys
        limit = sys.getrecursionlimit()
        sys.setrecursionlimit(1000)   # the interpreter's default, which the harness raises elsewhere
        try:
            for name, src in gen_program.long_lists(shard['size']):
                one(src, '  ', 'long_' + name)
                acc.label('long_list_' + name)
        finally:
            sys.setrecursionlimit(limit)
    elif shard['kind'] == 'history':
        def hist_one(src, indent, info):
            acc.case((src, indent), False, None)
            acc.label('history_print')

        def body(order):
            if shard['hseed'] % 2:
                order = list(reversed(order))   # Hypothesis starts from the identity permutation
            hist = [[s, '  '] for s in order] + [[s, '\t'] for s in reversed(order)] + [[s, '  '] for s in order[::3]]
            run_history(acc, opens, hist, hist_one)
            acc.label('history')
        run_given(st.permutations(HISTORY_FAMILY), body, shard['n'], shard['hseed'], acc)
    elif shard['kind'] == 'adj':
        # the adjacency product of C02 (slot templates x operand classes) through the pretty printer
        from props import c02
        n = 0
        for idx, (src, meta) in enumerate(c02.product_cases()):
            if idx % shard['of'] != shard['k']:
                continue
            if shard['stride'] > 1 and (idx // shard['of']) % shard['stride'] != shard['seed'] % shard['stride']:
                continue
            n += 1
            one(src, '  ' if n % 2 else '\t', 'adjacency')
        acc.extra['adjacency_enumerated'] = n
    elif shard['kind'] == 'g1':
        strat = st.tuples(gen_program.program_strategy(), INDENTS)
        run_given(strat, lambda x: one(x[0]['text'], x[1], 'g1', x[0]['level']), shard['n'], shard['hseed'], acc)
    else:
        for src in c03.load_corpus():
            for indent in ('  ', '\t', ''):
                one(src, indent, 'corpus')
        for src in gen_program.array_shapes():
            one(src, '  ', 'array_shapes')
        for src in line_end_family():
            one(src, '  ', 'line_end')
    return acc.result()
