"""C14 - unparsing is pure: tree unchanged, printers reusable, shortcuts agree."""
import json

from hypothesis import strategies as st
from hypothesis import settings, seed as hseed, Phase, HealthCheck
from hypothesis.stateful import RuleBasedStateMachine, rule, invariant, initialize, run_state_machine_as_test

from harness.runner import Acc
from harness import gen_program
from props import c03

PROPERTY = 'C14'
LEVEL = 'exploration'
RULE = ('Hypothesis rule-based state machine. State: a pool of trees (fixed seeds covering every array-elision form, '
        'comments, obfuscatable scopes, plus G1 programs added by a rule, some parsed with comment capture, every other one carrying a sourcepath) and a pool '
        'of printer objects (pretty with drawn indent, all 16 minify flag combinations, Unparser(rules=(obfuscate, '
        'indent)), default Unparser, and Unparsers that share rule objects: one minify / indent / obfuscate rule configuring several of them, also under instance-level layout handlers; an Unparser given token handler, layout handlers and a pre-walk hook as constructor arguments; the model printer of such a configuration is built from private rule objects). Rules: print_full(printer, tree); print_abandon(printer, tree, k) (k fragments, '
        'then the generator is closed or dropped); print_raising(printer) (a tree holding a node kind without '
        'definition); extract(tree) (ast_to_dict, the value-yielding unparser); new_printer; new_tree; shortcut(text, kind) (kinds include every option passed by keyword with a false, empty, short or long value). Model: the fragment list a *fresh* printer of the '
        'same configuration produced for the tree the first time the pair was seen (for the fixed seed trees: produced in a separate fresh interpreter, so that process-wide state cannot reach the model); every later full print must '
        'equal it (text, line, column, name, source). Invariant after every step: the deep fingerprint of every '
        'pooled tree (all attributes incl. positions, token tables, comments) and of the shared rule tables / '
        'surrogate elision separator is unchanged. Shortcuts: str(node) == pretty_print(node); es5.pretty_print(src, '
        '...) and es5.minify_print(src, ...) equal the explicit parse-then-print; es5(src) equals parse(src). '
        'non-trivial = history with >= 2 full prints by one printer object on different trees, one of them by an '
        'obfuscating printer or after an abandoned/raising call; distinct by history')
ASSUMPTIONS = ['the model is produced by the code under test itself (fresh printer object), so this check decides '
               'reusability/purity, not correctness of a single print (C01/C02/C07/C08 do that)']

from harness.gen_scope import wide_scope
WIDE = wide_scope(240)  # enough names for two-letter generated names past `do`

SEED_SOURCES = [
    ('var a = [1,,2,,,3,]; b = [,]; c = [,,x]; d = [];', False),
    ('function f(a, b) { var c = a + b; return function g(d) { return c + d + g(a); }; }', False),
    ('/*lead*/ x = 1; // tail\nif (a) { /*in*/ b(); } else c = /re/g;', True),
    ('try { a(); } catch (e) { b(e); } finally { c(); } switch (x) { case 1: y; default: z; }', False),
    ('for (var i = 0, n = a.length; i < n; i++) { o[i] = { get p() { return i; }, set p(v) { i = v; } }; }', False),
    ('x = "a\\\nb" + 1 .y; L: while (1) { break L; }', False),
    # catch parameters of one tree are free names used inside catch blocks of another
    ('function h() { try { run(); } catch (e) { log(e); report(err, x); } }', False),
    ('function k() { try { f(); } catch (log) { g(log); try { h(); } catch (err) { report(log, err); } } }', False),
    ('try { a(); } catch (report) { report(e); } function m(x) { try { x(); } catch (run) { e(run, log); } }', False),
    # directive prologues and literal data, for the extractor (an unparser that yields values)
    ('"use strict"; var conf = {"k": [1, 2], "s": "t"}; function f() { "use strict"; return conf; }', False),
]

CONFIGS = [('pretty', '  '), ('pretty', '\t'), ('pretty', ''), ('default',), ('shared_min',), ('shared_min_indent',),
           ('shared_indent',), ('shared_indent_obf',), ('shared_min_layout',), ('instance_args',)] + \
          [('min', o, g, s, d) for o in (False, True) for g in (False, True) for s in (False, True)
           for d in (False, True)] + \
          [('obf_indent', g, s) for g in (False, True) for s in (False, True)]


_SHARED_RULES = {}


def shared_rule(name, fresh=False):
    """rule setup functions are plain callables; one object may configure several Unparsers.
    fresh=True builds a private rule object of the same configuration (used for the model, so that the
    model cannot be contaminated through the shared object)"""
    from calmjs.parse import rules
    from calmjs.parse.lexers.es5 import Lexer
    make = {
        'min': lambda: rules.minify(drop_semi=False),
        'indent': lambda: rules.indent('  '),
        'obf': lambda: rules.obfuscate(reserved_keywords=Lexer.keywords_dict.keys()),
    }[name]
    if fresh:
        return make()
    if name not in _SHARED_RULES:
        _SHARED_RULES[name] = make()
    return _SHARED_RULES[name]


def last_statement_hook(dispatcher, node):
    """a pre-walk hook that changes what is printed without touching the tree: of a program with several
    statements only the last one is walked"""
    from calmjs.parse.asttypes import Program
    if isinstance(node, Program):
        kids = node.children()
        if len(kids) > 1:
            return kids[-1]
    return node


def make_printer(cfg, fresh=False):
    from calmjs.parse.unparsers.es5 import pretty_printer, minify_printer, Unparser
    from calmjs.parse import rules
    from calmjs.parse.lexers.es5 import Lexer
    if cfg[0] == 'instance_args':
        # every optional constructor argument given on the instance rather than through a rule
        from calmjs.parse.ruletypes import Space
        from calmjs.parse.handlers.core import layout_handler_space_imply, token_handler_str_default
        return Unparser(rules=(rules.indent('\t'),), token_handler=token_handler_str_default,
                        layout_handlers={Space: layout_handler_space_imply},
                        prewalk_hooks=(last_statement_hook,))
    if cfg[0] == 'shared_min':
        return Unparser(rules=(shared_rule('min', fresh),))
    if cfg[0] == 'shared_min_indent':
        return Unparser(rules=(shared_rule('min', fresh), shared_rule('indent', fresh)))
    if cfg[0] == 'shared_indent':
        return Unparser(rules=(shared_rule('indent', fresh),))
    if cfg[0] == 'shared_indent_obf':
        return Unparser(rules=(shared_rule('obf', fresh), shared_rule('indent', fresh)))
    if cfg[0] == 'shared_min_layout':
        # instance-level handlers layered over a shared first rule
        from calmjs.parse.ruletypes import Space
        from calmjs.parse.handlers.core import layout_handler_space_imply
        return Unparser(rules=(shared_rule('min', fresh),), layout_handlers={Space: layout_handler_space_imply})
    if cfg[0] == 'pretty':
        return pretty_printer(cfg[1])
    if cfg[0] == 'default':
        return Unparser()
    if cfg[0] == 'min':
        return minify_printer(obfuscate=cfg[1], obfuscate_globals=cfg[2], shadow_funcname=cfg[3], drop_semi=cfg[4])
    return Unparser(rules=(rules.obfuscate(obfuscate_globals=cfg[1], shadow_funcname=cfg[2],
                                           reserved_keywords=Lexer.keywords_dict.keys()), rules.indent('  ')))


def label_tree(tree, src):
    """every other tree carries a sourcepath, as one read from a named stream does"""
    if len(src) % 2:
        tree.sourcepath = 'src/file%d.js' % (len(src) % 7)


def fingerprint(node, _depth=0):
    """deep, identity-free fingerprint of a tree: class names and every attribute"""
    from calmjs.parse.asttypes import Node
    if isinstance(node, Node):
        items = []
        for k in sorted(vars(node)):
            items.append((k, fingerprint(vars(node)[k], _depth + 1)))
        for k in ('lexpos', 'lineno', 'colno', 'sourcepath'):
            if k not in vars(node):
                items.append((k + '@class', repr(getattr(node, k, None))))
        return (type(node).__name__, tuple(items))
    if isinstance(node, (list, tuple)):
        return tuple(fingerprint(x, _depth + 1) for x in node)
    if isinstance(node, dict):
        return tuple(sorted((repr(k), fingerprint(v, _depth + 1)) for k, v in node.items()))
    return repr(node)


def shared_fingerprint():
    from calmjs.parse.unparsers import es5 as u
    from calmjs.parse import ruletypes
    sep = ruletypes.ElisionJoinAttr.sep
    defs = tuple(sorted((k, repr_rules(v)) for k, v in u.definitions.items()))
    return (fingerprint(sep), defs)


def repr_rules(rs):
    out = []
    for r in rs:
        if isinstance(r, type):
            out.append(r.__name__)
        else:
            v = getattr(r, 'value', None)
            out.append((type(r).__name__, repr(getattr(r, 'attr', None)),
                        repr_rules(v) if isinstance(v, tuple) else repr(v), repr(getattr(r, 'pos', None))))
    return tuple(out)


class Violation(Exception):
    def __init__(self, bucket, detail):
        Exception.__init__(self, bucket)
        self.bucket = bucket
        self.detail = detail


class World(object):
    """the system under test + model; driven either by the state machine or by replay()"""

    def __init__(self):
        from calmjs.parse.parsers.es5 import parse
        self.parse = parse
        self.trees = []      # (key, tree, fingerprint)
        self.printers = []   # (cfg, printer, dirty flag)
        self.model = {}
        self.history = []
        self.shared = shared_fingerprint()
        self.full_by_printer = {}
        self.interesting = False
        self.touched = set()
        self.rot = 0
        for src, wc in SEED_SOURCES:
            self.new_tree(src, wc, record=False)
        self.wide_prints = 0
        self.new_printer(0, record=False)
        self.new_printer(5, record=False)

    def new_tree(self, src, wc, record=True):
        if record:
            self.history.append(['new_tree', src, wc])
        try:
            t = self.parse(src, with_comments=wc)
        except Exception:
            return
        label_tree(t, src)
        self.trees.append(((src, wc), t, fingerprint(t)))

    def new_printer(self, ci, record=True):
        if record:
            self.history.append(['new_printer', ci])
        cfg = CONFIGS[ci % len(CONFIGS)]
        self.printers.append([cfg, make_printer(cfg), False])

    def expected(self, cfg, ti):
        key = (cfg, self.trees[ti][0])
        if key not in self.model and key in CLEAN_MODEL:
            # computed by a fresh interpreter that printed nothing else before
            self.model[key] = CLEAN_MODEL[key]
        if key not in self.model:
            try:
                self.model[key] = [tuple(jsonable(f)) for f in make_printer(cfg, fresh=True)(self.trees[ti][1])]
            except Exception as e:
                raise Violation('fresh_printer_raises', {'config': list(cfg), 'tree': self.trees[ti][0][0][:200],
                                                         'error': repr(e)[:200]})
        return self.model[key]

    def print_full(self, pi, ti):
        self.history.append(['print_full', pi, ti])
        pi %= len(self.printers)
        ti %= len(self.trees)
        self.touched.add(ti)
        cfg, printer, dirty = self.printers[pi]
        exp = self.expected(cfg, ti)
        try:
            got = [tuple(jsonable(f)) for f in printer(self.trees[ti][1])]
        except Exception as e:
            raise Violation('reused_printer_raises', {'config': list(cfg), 'tree': self.trees[ti][0][0][:200],
                                                      'error': repr(e)[:200]})
        if got != exp:
            d = next((i for i, (a, b) in enumerate(zip(got, exp)) if a != b), min(len(got), len(exp)))
            raise Violation('reused_printer_output_differs', {
                'config': list(cfg), 'tree': self.trees[ti][0][0][:200], 'index': d,
                'got': [list(x) for x in got[d:d + 3]], 'expected': [list(x) for x in exp[d:d + 3]]})
        seen = self.full_by_printer.setdefault(pi, set())
        seen.add(ti)
        obf = (cfg[0] == 'min' and cfg[1]) or cfg[0] == 'obf_indent'
        if len(seen) >= 2 and (obf or dirty):
            self.interesting = True

    def extract(self, ti, fold):
        """the extractor is an unparser too: converting a tree to a dictionary leaves the tree alone"""
        self.history.append(['extract', ti, fold])
        from calmjs.parse.unparsers.extractor import ast_to_dict
        ti %= len(self.trees)
        self.touched.add(ti)
        try:
            ast_to_dict(self.trees[ti][1], fold_ops=bool(fold))
        except Exception:
            pass   # what it returns or rejects is C19's business; the invariant below is what counts here

    def print_wide(self, pi):
        """a scope wide enough for two-letter generated names, printed by a (re)used printer; at most
        twice per history (it is expensive)"""
        self.history.append(['print_wide', pi])
        if self.wide_prints >= 2:
            return
        self.wide_prints += 1
        if not any(k[0] == (WIDE, False) for k in self.trees):
            # parsing this text takes seconds: one tree per worker process, shared by all histories
            # (its fingerprint is taken once, so a mutation by any history is still detected)
            if 'tree' not in _WIDE_CACHE:
                _WIDE_CACHE['tree'] = self.parse(WIDE)
                _WIDE_CACHE['fp'] = fingerprint(_WIDE_CACHE['tree'])
            self.trees.append(((WIDE, False), _WIDE_CACHE['tree'], _WIDE_CACHE['fp']))
        ti = next(i for i, k in enumerate(self.trees) if k[0] == (WIDE, False))
        self.history.pop()
        self.print_full(pi, ti)
        self.history[-1] = ['print_wide', pi]

    def print_abandon(self, pi, ti, k, close):
        self.history.append(['print_abandon', pi, ti, k, close])
        pi %= len(self.printers)
        ti %= len(self.trees)
        self.touched.add(ti)
        gen = self.printers[pi][1](self.trees[ti][1])
        for _ in range(k):
            try:
                next(gen)
            except StopIteration:
                break
            except Exception as e:
                raise Violation('reused_printer_raises', {'config': list(self.printers[pi][0]),
                                                          'tree': self.trees[ti][0][0][:200], 'error': repr(e)[:200]})
        if close and hasattr(gen, 'close'):
            gen.close()
        del gen
        self.printers[pi][2] = True

    def print_raising(self, pi, variant):
        self.history.append(['print_raising', pi, variant])
        from calmjs.parse import asttypes
        from calmjs.parse.parsers.es5 import parse
        pi %= len(self.printers)
        t = parse('a = [1, b]; function f(x) { return x; }')
        if variant == 0:
            class Weird(asttypes.Node):
                pass
            t.children()[0].expr.right.items.append(Weird())
        else:
            # a Declare target that is not an identifier
            t.children()[1].identifier = asttypes.String('"s"')
        try:
            list(self.printers[pi][1](t))
            raised = False
        except Exception:
            raised = True
        self.printers[pi][2] = True
        STATS['ops']['raising_call_raised' if raised else 'raising_call_did_not_raise'] = \
            STATS['ops'].get('raising_call_raised' if raised else 'raising_call_did_not_raise', 0) + 1
        return raised

    def shortcut(self, src, kind, wc):
        self.history.append(['shortcut', src, kind, wc])
        from calmjs.parse import es5
        from calmjs.parse.parsers.es5 import parse
        from calmjs.parse.unparsers.es5 import pretty_print, minify_print
        from calmjs.parse.walkers import ReprWalker
        try:
            t = parse(src, with_comments=wc)
        except Exception:
            return
        try:
            a, b = self._shortcut_pair(src, kind, wc, t)
        except Violation:
            raise
        except Exception as e:
            raise Violation('shortcut_raises', {'kind': kind, 'source': src, 'error': repr(e)[:200]})
        if a != b:
            raise Violation('shortcut_differs', {'kind': kind, 'source': src, 'shortcut': a[:300], 'explicit': b[:300]})

    def _shortcut_pair(self, src, kind, wc, t):
        from calmjs.parse import es5
        from calmjs.parse.parsers.es5 import parse
        from calmjs.parse.unparsers.es5 import pretty_print, minify_print
        from calmjs.parse.walkers import ReprWalker
        if kind == 'str':
            fp = fingerprint(t)
            a, b = str(t), pretty_print(t)
            if fingerprint(t) != fp:
                raise Violation('tree_modified_by_str', {'source': src})
            from calmjs.parse.walkers import Walker
            for sub in Walker().walk(t):
                if str(sub) != pretty_print(sub):
                    raise Violation('str_differs_from_pretty_print', {'source': src, 'node': type(sub).__name__,
                                                                      'str': str(sub)[:200],
                                                                      'pretty_print': pretty_print(sub)[:200]})
        elif kind == 'pretty':
            a = es5.pretty_print(src, with_comments=wc) if wc else es5.pretty_print(src)
            b = pretty_print(t)
        elif kind == 'pretty_indent':
            a = es5.pretty_print(src, indent_str='\t', with_comments=wc)
            b = pretty_print(t, indent_str='\t')
        elif kind in ('pretty_indent_empty', 'pretty_indent_one', 'pretty_indent_wide'):
            # option values that are false, short or long: they are values, not "unset"
            ind = {'pretty_indent_empty': '', 'pretty_indent_one': ' ', 'pretty_indent_wide': '        '}[kind]
            a = es5.pretty_print(src, indent_str=ind, with_comments=wc)
            b = pretty_print(t, indent_str=ind)
        elif kind == 'minify_all_false':
            a = es5.minify_print(src, obfuscate=False, obfuscate_globals=False, shadow_funcname=False,
                                 drop_semi=False, with_comments=wc)
            b = minify_print(t, obfuscate=False, obfuscate_globals=False, shadow_funcname=False, drop_semi=False)
        elif kind == 'minify_all_true':
            a = es5.minify_print(src, obfuscate=True, obfuscate_globals=True, shadow_funcname=True,
                                 drop_semi=True, with_comments=wc)
            b = minify_print(t, obfuscate=True, obfuscate_globals=True, shadow_funcname=True, drop_semi=True)
        elif kind == 'minify':
            a = es5.minify_print(src, with_comments=wc) if wc else es5.minify_print(src)
            b = minify_print(t)
        elif kind == 'minify_flags':
            a = es5.minify_print(src, obfuscate=True, obfuscate_globals=True, drop_semi=True, with_comments=wc)
            b = minify_print(t, obfuscate=True, obfuscate_globals=True, drop_semi=True)
        elif kind == 'minify_shadow':
            a = es5.minify_print(src, True, False, True, False)
            b = minify_print(parse(src), True, False, True, False)
        else:
            rw = ReprWalker()
            a = rw.walk(es5(src), pos=True)
            b = rw.walk(parse(src), pos=True)
        return a, b

    def check_invariant(self, full=False):
        # the trees touched by the last operation, plus one other in rotation (every tree when full)
        idx = set(self.touched)
        if self.trees:
            self.rot = (self.rot + 1) % len(self.trees)
            if len(self.trees[self.rot][0][0]) < 2000:
                idx.add(self.rot)
        if full:
            idx = set(range(len(self.trees)))
        self.touched = set()
        for i in idx:
            key, t, fp = self.trees[i]
            if fingerprint(t) != fp:
                raise Violation('tree_modified_by_printing', {'tree': key[0][:200], 'history_len': len(self.history)})
        if shared_fingerprint() != self.shared:
            raise Violation('shared_rule_objects_modified', {'history_len': len(self.history)})

    def apply(self, op):
        name = op[0]
        if name == 'new_tree':
            self.new_tree(op[1], op[2])
        elif name == 'new_printer':
            self.new_printer(op[1])
        elif name == 'print_full':
            self.print_full(op[1], op[2])
        elif name == 'print_wide':
            self.print_wide(op[1])
        elif name == 'print_abandon':
            self.print_abandon(op[1], op[2], op[3], op[4])
        elif name == 'print_raising':
            self.print_raising(op[1], op[2])
        elif name == 'extract':
            self.extract(op[1], op[2])
        elif name == 'shortcut':
            self.shortcut(op[1], op[2], op[3])
        self.check_invariant()


LAST = {}
_WIDE_CACHE = {}
CLEAN_MODEL = {}

CLEAN_CODE = r'''
import json, sys
sys.path.insert(0, sys.argv[1])
from props import c14
out = []
from calmjs.parse.parsers.es5 import parse
for si, (src, wc) in enumerate(c14.SEED_SOURCES):
    for ci, cfg in enumerate(c14.CONFIGS):
        # one fresh tree and one fresh printer per pair; earlier pairs of this child only printed
        # through printers of their own
        t = parse(src, with_comments=wc)
        c14.label_tree(t, src)
        out.append([si, ci, [c14.jsonable(f) for f in c14.make_printer(cfg, fresh=True)(t)]])
print(json.dumps(out))
'''


def jsonable(fragment):
    return [x if isinstance(x, (str, int, type(None))) else repr(x) for x in fragment]


def load_clean_model(root):
    """expected fragments of (configuration, seed tree), each pair printed in an interpreter of its own
    batch: process-wide state left behind by other prints cannot reach the model"""
    import os
    import subprocess
    import sys
    from harness import build
    here = os.path.dirname(os.path.dirname(os.path.abspath(__file__)))
    p = subprocess.run([sys.executable, '-c', build.boot_code(root) + CLEAN_CODE, here], env=build.child_env(root),
                       capture_output=True, text=True, timeout=600)
    if p.returncode != 0:
        raise RuntimeError('clean-room model failed: %s' % p.stderr[-800:])
    for si, ci, frags in json.loads(p.stdout.strip().splitlines()[-1]):
        CLEAN_MODEL[(CONFIGS[ci], SEED_SOURCES[si])] = [tuple(f) for f in frags]
STATS = {'histories': 0, 'steps': 0, 'interesting': set(), 'ops': {}, 'samples': []}

SHORT_SRC = st.sampled_from([s for s, _ in SEED_SOURCES] + ['a = 1', 'function f(){}', 'x = [1,,2]', 'if (a) b; else c',
                                                               '/*c*/ a; // d\n b', 'return a\nb', 'a / /re/', '',
                                                               # characters Python treats as line breaks and ES5 does not;
                                                               # CR / CRLF inside multi-line tokens
                                                               'function f() { return\x0cx }', 'x\x0b++\x0by', 'a = "p\\\r\nq";',
                                                               '/*a\r\nb*/ c; // d\x0ce\n f', 'a\r\nb\rc'])


class Machine(RuleBasedStateMachine):
    def __init__(self):
        RuleBasedStateMachine.__init__(self)
        self.w = World()

    def _do(self, f, *a):
        try:
            r = f(*a)
            self.w.check_invariant()
            return r
        except Violation as v:
            LAST['history'] = list(self.w.history)
            LAST['bucket'] = v.bucket
            LAST['detail'] = v.detail
            raise

    @rule(p=gen_program.program_strategy(max_fuel=4, layout_levels=(1, 3)), wc=st.booleans())
    def new_tree(self, p, wc):
        self._do(self.w.new_tree, p['text'], wc)

    @rule(ci=st.integers(0, len(CONFIGS) - 1))
    def new_printer(self, ci):
        self._do(self.w.new_printer, ci)

    @rule(pi=st.integers(0, 40), ti=st.integers(0, 40))
    def print_full(self, pi, ti):
        self._do(self.w.print_full, pi, ti)

    @rule(pi=st.integers(0, 40), t1=st.integers(0, 40), t2=st.integers(0, 40), t3=st.integers(0, 40))
    def print_several(self, pi, t1, t2, t3):
        for t in (t1, t2, t3, t1):
            self._do(self.w.print_full, pi, t)

    @rule(pi=st.integers(0, 40))
    def print_wide(self, pi):
        self._do(self.w.print_wide, pi)

    @rule(pi=st.integers(0, 40), ti=st.integers(0, 40), k=st.integers(0, 30), close=st.booleans())
    def print_abandon(self, pi, ti, k, close):
        self._do(self.w.print_abandon, pi, ti, k, close)

    @rule(pi=st.integers(0, 40), variant=st.integers(0, 1))
    def print_raising(self, pi, variant):
        self._do(self.w.print_raising, pi, variant)

    @rule(ti=st.integers(0, 40), fold=st.booleans())
    def extract(self, ti, fold):
        self._do(self.w.extract, ti, fold)

    @rule(src=SHORT_SRC, kind=st.sampled_from(['str', 'pretty', 'pretty_indent', 'minify', 'minify_flags',
                                               'minify_shadow', 'parse', 'pretty_indent_empty', 'pretty_indent_one',
                                               'pretty_indent_wide', 'minify_all_false', 'minify_all_true']),
          wc=st.booleans())
    def shortcut(self, src, kind, wc):
        self._do(self.w.shortcut, src, kind, wc)

    @rule(src=SHORT_SRC, kind=st.sampled_from(['pretty', 'minify', 'pretty_indent']), wc=st.booleans())
    def shortcut_same_text_both_flags(self, src, kind, wc):
        # the same text through the shortcuts back to back with different comment flags
        for flag in (wc, not wc, wc):
            self._do(self.w.shortcut, src, kind, flag)

    def teardown(self):
        try:
            self.w.check_invariant(full=True)
        except Violation as v:
            LAST['history'] = list(self.w.history)
            LAST['bucket'] = v.bucket
            LAST['detail'] = v.detail
            raise
        STATS['histories'] += 1
        STATS['steps'] += len(self.w.history)
        key = json.dumps(self.w.history, sort_keys=True)
        if self.w.interesting:
            STATS['interesting'].add(hash(key))
            if len(STATS['samples']) < 4:
                STATS['samples'].append(self.w.history[:30])
        for op in self.w.history:
            STATS['ops'][op[0]] = STATS['ops'].get(op[0], 0) + 1


def replay(case, acc):
    if not CLEAN_MODEL:
        from harness import build
        load_clean_model(build._made[-1])
    w = World()
    try:
        for op in case['history']:
            w.apply(op)
        w.check_invariant(full=True)
    except Violation as v:
        acc.fail(None, case, {'bucket': v.bucket, 'detail': v.detail}, ())


def plan(tier, seed):
    quick = tier == 'quick'
    n = 320 if quick else 9600
    return [{'name': 'sm-%d' % k, 'kind': 'sm', 'n': n // 16, 'steps': 25 if quick else 60,
             'hseed': seed * 1000 + k, 'shrink': not quick} for k in range(16)]


def run_shard(shard):
    acc = Acc()
    opens = shard['open_signatures']
    LAST.clear()
    if not CLEAN_MODEL:
        load_clean_model(shard['root'])
    STATS.update({'histories': 0, 'steps': 0, 'interesting': set(), 'ops': {}, 'samples': []})
    phases = (Phase.generate, Phase.shrink) if shard.get('shrink') else (Phase.generate,)
    s = settings(max_examples=shard['n'], stateful_step_count=shard['steps'], deadline=None, database=None,
                 report_multiple_bugs=False, phases=phases,
                 suppress_health_check=list(HealthCheck))
    try:
        run_state_machine_as_test(hseed(shard['hseed'])(Machine), settings=s)
    except Violation as v:
        acc.fail(None, {'history': LAST.get('history', [])}, {'bucket': LAST.get('bucket', v.bucket),
                                                              'detail': LAST.get('detail', v.detail)}, opens)
    except Exception as e:
        # Hypothesis re-runs a failing history; when the code under test keeps state between calls the
        # re-run can behave differently and the library reports that as an error of its own.  A violation
        # that was observed is reported all the same (the replay file holds the history that showed it).
        if not LAST.get('bucket'):
            raise
        acc.fail(None, {'history': LAST.get('history', [])},
                 {'bucket': LAST['bucket'], 'detail': LAST.get('detail'),
                  'note': 'observed once; a re-run of the same history behaved differently (%s)' % type(e).__name__},
                 opens)
    acc.evaluations = STATS['histories']
    acc.nontrivial = set(STATS['interesting'])
    acc.samples = [{'history': h} for h in STATS['samples']]
    for k, v in STATS['ops'].items():
        acc.label('op_' + k, v)
    acc.extra['steps_total'] = STATS['steps']
    return acc.result()
