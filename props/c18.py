"""C18 - stream read/write helpers: same output, valid map link, no leaked streams."""
import base64
import json
import posixpath
from io import StringIO

from hypothesis import strategies as st

from harness.runner import Acc
from harness import gen_program

PROPERTY = 'C18'
LEVEL = 'fault_enumeration'
RULE = ('scenario (Hypothesis): 1-3 small programs read through io.read (open stream or factory; one may be invalid '
        'text), printer in {pretty, minify, minify+obfuscate}, source-map arrangement in {none, separate stream, same '
        'object as output, separate factory}, output as open stream or factory, stream names absolute / relative / '
        'relative with directory / containing a backslash (an ordinary character where the separator is /) / missing, sourcemap_normalize_mappings, sourcemap_normalize_paths, '
        'source_mapping_url in {default, explicit, None}, nodes given as a single node / list / tuple / iterator / lazily produced generator (each pull is a fault point), programs whose printed form is empty, an output or map stream opened in binary mode (open or from a factory: the call fails, what it opened is closed once), output stream encoding in {unset, utf-8, utf-16, ascii, latin-1, shift_jis} with programs whose identifiers lie outside those code pages (an inline map that cannot be encoded must fail, not be mislabelled). Streams are recording doubles. Fault points, enumerated '
        'exhaustively per scenario: the scenario is run fault-free to count every factory call, read, parser call, '
        'fragment pulled from the unparser, write and writelines; then re-run once per event with a marker exception '
        'raised at exactly that event (a third of the scenarios raise a BaseException subclass, the kind KeyboardInterrupt is; one scenario in sixteen prints a program of 150-1100 statements, whose map runs to tens of kilobytes, with a sample of its fault points; base64 payloads are decoded strictly). Oracle: fault-free - output text == fresh printer text + trailer; trailer URL '
        'resolves (against the output name) to the map stream name, or is a data: URL whose base64 payload decodes to '
        'the map; map JSON == encode of what sourcemap.write yields for the same fragments with file/sources '
        'relativised as documented; read() records the stream name as sourcepath. Every path: each factory-made '
        'stream closed exactly once, passed-in streams never closed, the injected exception object reaches the '
        'caller (a syntax error arrives as the same class with " in <name>" appended). non-trivial = scenario with a '
        'factory-made stream and a fault injected after at least one successful write; distinct by (scenario, fault)')
ASSUMPTIONS = ['faults are injected on factory/read/parse/fragment/write/writelines events, not on close (the statement '
               'enumerates read, parse, unparse and write)']


class Marker(Exception):
    pass


class MarkerBase(BaseException):
    """a failure that does not derive from Exception (the kind KeyboardInterrupt / SystemExit are)"""


class Ctl(object):
    """event counter / fault injector shared by all doubles of one run"""

    def __init__(self, fault_at=None, fault_class=Marker):
        self.n = 0
        self.fault_at = fault_at
        self.fault_class = fault_class
        self.events = []
        self.marker = None
        self.writes_before_fault = 0

    def tick(self, kind):
        idx = self.n
        self.n += 1
        self.events.append(kind)
        if self.fault_at is not None and idx == self.fault_at:
            self.marker = self.fault_class('injected at event %d (%s)' % (idx, kind))
            self.writes_before_fault = sum(1 for e in self.events[:-1] if e.startswith('write'))
            raise self.marker


class RecStream(object):
    def __init__(self, ctl, name=None, text='', role='', from_factory=False, encoding=None):
        self.ctl = ctl
        if name is not None:
            self.name = name
        if encoding is not None:
            self.encoding = encoding
        self.text = text
        self.buf = []
        self.closed = 0
        self.role = role
        self.from_factory = from_factory

    def read(self):
        self.ctl.tick('read:' + self.role)
        return self.text

    def write(self, s):
        self.ctl.tick('write:' + self.role)
        self.buf.append(s)

    def writelines(self, lines):
        self.ctl.tick('writelines:' + self.role)
        self.buf.extend(lines)

    def close(self):
        self.closed += 1

    def getvalue(self):
        return ''.join(self.buf)


class BinStream(RecStream):
    """a stream opened in binary mode, as open(name, 'wb') gives: text cannot be written to it"""
    mode = 'wb'

    def write(self, s):
        self.ctl.tick('write:' + self.role)
        if not isinstance(s, bytes):
            raise TypeError("a bytes-like object is required, not '%s'" % type(s).__name__)
        self.buf.append(s)

    def writelines(self, lines):
        for line in lines:
            self.write(line)


class Factory(object):
    def __init__(self, ctl, made, **kw):
        self.ctl = ctl
        self.kw = kw
        self.made = made

    def __call__(self):
        self.ctl.tick('factory:' + self.kw.get('role', ''))
        kw = dict(self.kw)
        cls = BinStream if kw.pop('binary', False) else RecStream
        s = cls(self.ctl, from_factory=True, **kw)
        self.made.append(s)
        return s


NAMES = {
    'abs': ('/w/out/a.min.js', '/w/out/a.min.js.map', ['/w/src/x.js', '/w/src/sub/y.js', '/w/z.js']),
    # sibling directories whose names are prefixes of one another, map away from the output
    'abs_siblings': ('/w/dist/a.min.js', '/w/dist.maps/a.min.js.map', ['/w/dist-src/x.js', '/w/dist/x.js', '/w/di/z.js']),
    'abs_nested': ('/w/a/b/c/a.min.js', '/w/a/maps/a.min.js.map', ['/w/a/b/x.js', '/w/a/b/c/d/y.js', '/z.js']),
    'rel': ('a.min.js', 'a.min.js.map', ['x.js', 'y.js', 'z.js']),
    'reldir': ('out/a.min.js', 'out/a.min.js.map', ['src/x.js', 'src/y.js', 'z.js']),
    'missing': (None, None, [None, None, None]),
}
import os as _os
if _os.sep == '/':
    # where the backslash is an ordinary file-name character, names that contain one
    NAMES['abs_backslash'] = ('/w/out/a.min.js', '/w/out/maps\\v2/a.min.js.map',
                              ['/w/src\\old/x.js', '/w/out/y\\z.js', '/w/z.js'])
    NAMES['rel_backslash'] = ('a\\b.min.js', 'a\\b.min.js.map', ['x\\y.js', 'y.js', 'z.js'])


def make_printer(kind):
    from calmjs.parse.unparsers.es5 import pretty_printer, minify_printer
    if kind == 'pretty':
        return pretty_printer('  ')
    if kind == 'min':
        return minify_printer()
    return minify_printer(obfuscate=True, obfuscate_globals=True)


def run(sc, fault_at=None):
    """execute a scenario; returns dict(result)"""
    from calmjs.parse import io as cio
    from calmjs.parse.parsers.es5 import parse as real_parse
    from calmjs.parse.exceptions import ECMASyntaxError
    ctl = Ctl(fault_at, MarkerBase if sc.get('fault_class') == 'base' else Marker)
    made = []
    passed = []
    out_name, map_name, src_names = NAMES[sc['names']]
    res = {'ctl': ctl, 'made': made, 'passed': passed, 'error': None, 'trees': [], 'phase': 'read'}

    def parser(text):
        ctl.tick('parse')
        return real_parse(text)
    try:
        trees = []
        for i, text in enumerate(sc['programs']):
            if sc['read_factory'][i]:
                st_ = Factory(ctl, made, name=src_names[i], text=text, role='src%d' % i)
            else:
                st_ = RecStream(ctl, name=src_names[i], text=text, role='src%d' % i)
                passed.append(st_)
            t = cio.read(parser, st_)
            trees.append(t)
        res['trees'] = trees
        res['phase'] = 'write'
        real_printer = make_printer(sc['printer'])

        def unparser(node):
            # what the printer returns is handed on in kind (a generator stays lazy, a sequence stays a
            # sequence); every fragment is an event
            res = real_printer(node)
            if isinstance(res, (list, tuple)):
                for _ in res:
                    ctl.tick('fragment')
                return res

            def ticking():
                for frag in res:
                    ctl.tick('fragment')
                    yield frag
            return ticking()
        binary = sc.get('binary')
        if sc['out_factory']:
            out = Factory(ctl, made, name=out_name, role='out', encoding=sc.get('encoding'), binary=binary == 'out')
        else:
            out = (BinStream if binary == 'out' else RecStream)(ctl, name=out_name, role='out', encoding=sc.get('encoding'))
            passed.append(out)
        arr = sc['map']
        if arr == 'none':
            sm = None
        elif arr == 'same':
            sm = out
        elif arr == 'separate':
            sm = (BinStream if binary == 'map' else RecStream)(ctl, name=map_name, role='map')
            passed.append(sm)
        else:
            sm = Factory(ctl, made, name=map_name, role='map', binary=binary == 'map')
        kw = {'sourcemap_normalize_mappings': sc['norm_mappings'], 'sourcemap_normalize_paths': sc['norm_paths']}
        if sc['url'] == 'explicit':
            kw['source_mapping_url'] = 'explicit.map'
        elif sc['url'] == 'none':
            kw['source_mapping_url'] = None
        nodes = trees if (len(trees) > 1 or sc.get('as_list')) else trees[0]
        how = sc.get('nodes_as', 'list')
        if isinstance(nodes, list):
            if how == 'tuple':
                nodes = tuple(nodes)
            elif how == 'iterator':
                nodes = iter(nodes)
            elif how == 'generator':
                def lazily(items):
                    # a lazily produced sequence of nodes (the README idiom `(io.read(es5, f) for f in files)`):
                    # pulling an item is an event of its own and may fail
                    for item in items:
                        ctl.tick('nodes_iter')
                        yield item
                nodes = lazily(list(nodes))
        cio.write(unparser, nodes, out, sm, **kw)
        res['phase'] = 'done'
    except BaseException as e:
        res['error'] = e
    return res


def streams_of(res, role):
    return [s for s in res['made'] + res['passed'] if s.role == role]


def relativise(base, target, norm):
    if norm and base is not None and target is not None and posixpath.isabs(base) and posixpath.isabs(target):
        return posixpath.relpath(posixpath.normpath(target), posixpath.dirname(posixpath.normpath(base)))
    return target


def check_closing(res, fail):
    for s in res['made']:
        if s.closed != 1:
            return fail('factory_stream_closed_%d_times' % s.closed, role=s.role, phase=res['phase'])
    for s in res['passed']:
        if s.closed != 0:
            return fail('passed_in_stream_closed', role=s.role, phase=res['phase'])
    return True


_EARLIER = []


def check_scenario(acc, opens, sc):
    """fault-free run + every fault point.  Returns (number of executions, nontrivial executions)"""
    from calmjs.parse import sourcemap
    from calmjs.parse.exceptions import ECMASyntaxError
    case = {'scenario': sc}
    state = {'ok': True}

    def fail(bucket, **kw):
        d = dict(kw)
        d['bucket'] = bucket
        sig = classify(sc, bucket, kw)
        acc.fail(sig, dict(case, fault_at=kw.get('fault_at')), d, opens)
        if sig is not None and sig in opens:
            return True  # listed finding: counted, keep judging the rest of the scenario
        state['ok'] = False
        return False
    base = run(sc)
    n_events = base['ctl'].n
    # streams handed out by factories in *earlier* calls of this process must stay closed exactly once
    for s_ in _EARLIER:
        if s_.closed != 1:
            fail('earlier_factory_stream_closed_again', role=s_.role, closed=s_.closed)
            del _EARLIER[:]
            return 1, 0
    del _EARLIER[:]
    _EARLIER.extend(base['made'][:4])
    execs = 1
    invalid = sc.get('invalid_index')
    # ---- fault-free oracle
    if not check_closing(base, fail):
        return execs, 0
    if sc.get('binary') and invalid is None:
        # a stream that takes no text: the failure is the stream's (a write that fails, or a refusal up front) and
        # reaches the caller; what was opened for the call has been closed (judged above)
        if base['error'] is None:
            fail('write_to_binary_stream_reported_no_error')
        acc.label('binary_stream_' + sc['binary'])
        return execs, (1 if sc['out_factory'] or sc['map'] == 'factory' else 0)
    if invalid is not None:
        e = base['error']
        name = NAMES[sc['names']][2][invalid]
        if not isinstance(e, ECMASyntaxError):
            fail('syntax_error_not_propagated', got=repr(e))
            return execs, 0
        try:
            __import__('calmjs.parse.parsers.es5', fromlist=['x']).parse(sc['programs'][invalid])
            direct = None
        except Exception as d:
            direct = d
        if type(e) is not type(direct):
            # the failure of the parser propagates: same exception class as the parser raises itself
            fail('syntax_error_class_changed', got=type(e).__name__, parser_raises=type(direct).__name__)
            return execs, 0
        if name is not None and not str(e).endswith(' in %r' % name):
            fail('syntax_error_not_relabelled', message=str(e), name=name)
            return execs, 0
    else:
        unencodable = (isinstance(base['error'], UnicodeEncodeError) and sc['map'] == 'same' and sc.get('encoding')
                       and base['phase'] == 'write')
        if base['error'] is not None and not unencodable:
            fail('fault_free_run_raises', error=repr(base['error'])[:300])
            return execs, 0
        out_name, map_name, src_names = NAMES[sc['names']]
        for i, t in enumerate(base['trees']):
            if t.sourcepath != src_names[i]:
                fail('read_does_not_record_stream_name', got=repr(t.sourcepath), expected=src_names[i])
                return execs, 0
        out = streams_of(base, 'out')[0]
        text = out.getvalue()
        frags = [f for t in base['trees'] for f in make_printer(sc['printer'])(t)]
        body = ''.join(f.text for f in frags)
        if not text.startswith(body):
            fail('output_text_differs', got=text[:200], expected=body[:200])
            return execs, 0
        trailer = text[len(body):]
        arr = sc['map']
        mappings, sources, names = sourcemap.write(iter(frags), StringIO(), normalize=sc['norm_mappings'])
        want_map = {
            'version': 3,
            'mappings': __import__('calmjs.parse.vlq', fromlist=['x']).encode_mappings(mappings),
            'names': names,
        }
        inv = 'about:invalid'
        o_name = out_name if out_name is not None else inv
        if arr == 'none':
            if trailer != '':
                fail('trailer_without_map_stream', trailer=trailer[:200])
                return execs, 0
        else:
            m_name = (map_name if map_name is not None else inv) if arr != 'same' else o_name
            want_map['file'] = relativise(m_name, o_name, sc['norm_paths'])
            want_map['sources'] = [relativise(m_name, s, sc['norm_paths']) for s in sources]
            if arr == 'same' and sc.get('encoding'):
                try:
                    json.dumps(want_map, sort_keys=True, ensure_ascii=False).encode(sc['encoding'])
                    encodable = True
                except UnicodeError:
                    encodable = False
                if unencodable and encodable:
                    fail('fault_free_run_raises', error=repr(base['error'])[:300])
                    return execs, 0
                if unencodable:
                    # the map cannot be expressed in the stream's declared encoding: the failure propagates
                    acc.label('unencodable_inline_map_failure_propagated')
            if unencodable:
                pass
            elif arr == 'same':
                prefix = '\n//# sourceMappingURL=data:application/json;base64;charset='
                if not trailer.startswith(prefix) or ',' not in trailer[len(prefix):]:
                    fail('data_url_trailer_malformed', trailer=trailer[:120])
                    return execs, 0
                charset, payload = trailer[len(prefix):].split(',', 1)
                try:
                    if payload.endswith('\n'):
                        payload = payload[:-1]
                    got_map = json.loads(base64.b64decode(payload, validate=True).decode(charset))
                except Exception as e:
                    fail('data_url_does_not_decode', error=repr(e)[:200])
                    return execs, 0
            else:
                sm = streams_of(base, 'map')[0]
                try:
                    got_map = json.loads(sm.getvalue())
                except Exception as e:
                    fail('map_stream_not_json', error=repr(e)[:200], content=sm.getvalue()[:200])
                    return execs, 0
                if sc['url'] == 'none':
                    if trailer != '':
                        fail('trailer_despite_source_mapping_url_none', trailer=trailer[:100])
                        return execs, 0
                else:
                    pre = '\n//# sourceMappingURL='
                    if not (trailer.startswith(pre) and trailer.endswith('\n')):
                        fail('trailer_malformed', trailer=trailer[:120])
                        return execs, 0
                    url = trailer[len(pre):-1]
                    if sc['url'] == 'explicit':
                        if url != 'explicit.map':
                            fail('explicit_url_not_written', url=url)
                            return execs, 0
                    elif out_name is not None and map_name is not None:
                        resolved = posixpath.normpath(posixpath.join(posixpath.dirname(out_name), url))
                        if resolved != posixpath.normpath(map_name) or ('\\' in url and '\\' not in map_name):
                            if not fail('url_does_not_designate_map', url=url, output=out_name, map=map_name,
                                        resolved=resolved):
                                return execs, 0
            if not unencodable and got_map != want_map:
                diff = sorted(k for k in set(got_map) | set(want_map) if got_map.get(k) != want_map.get(k))
                fail('map_differs_from_lower_level_api', keys=diff,
                     got=dict((k, got_map.get(k)) for k in diff), expected=dict((k, want_map.get(k)) for k in diff))
                return execs, 0
    # ---- every fault point
    nontrivial = 0
    points = range(n_events)
    if sc.get('big'):
        # a long program: the fault-free oracle is the point (sizes beyond any internal block); faults are sampled
        points = sorted(set([0, 1, 2, n_events - 1, n_events - 2] + list(range(0, n_events, max(1, n_events // 12)))))
        points = [j for j in points if 0 <= j < n_events]
        acc.label('big_scenario')
    for j in points:
        r = run(sc, fault_at=j)
        execs += 1
        kind = base['ctl'].events[j]
        if r['ctl'].marker is None:
            fail('fault_point_not_reached', fault_at=j, kind=kind)
            return execs, nontrivial
        if r['error'] is not r['ctl'].marker:
            fail('injected_exception_not_propagated', fault_at=j, kind=kind, got=repr(r['error'])[:200])
            return execs, nontrivial
        if not check_closing(r, lambda b, **kw: fail(b, fault_at=j, kind=kind, **kw)):
            return execs, nontrivial
        if r['made'] and r['ctl'].writes_before_fault >= 1:
            nontrivial += 1
            acc.nontrivial.add(hash((json.dumps(sc, sort_keys=True), j)))
        acc.label('fault_' + kind.split(':')[0])
    return execs, nontrivial


def classify(sc, bucket, kw):
    if bucket == 'url_does_not_designate_map' and sc['names'] == 'reldir':
        return 'c18.relative_names_with_directory_url'
    return None


def replay(case, acc):
    check_scenario(acc, (), case['scenario'])


SMALL = ['a = 1;', 'var x = function(a) { return a + 1; };', 'if (a) { b(); } else c;', 'x = [1,,2]; y = {p: "s"};',
         'function f(longName, other) { return longName * other; }', '// c\nfoo(bar);\n', '',
         u'function g(\u0434\u043b\u0438\u043d\u0430, \u65e5) { return \u0434\u043b\u0438\u043d\u0430 + \u65e5; }',
         u'var \u00e9t\u00e9 = 1, \u03a9 = \u00e9t\u00e9;']
# programs for which a printer may produce no fragment at all
EMPTYISH = ['', '  \n', '/* only a comment */', '// c\n', ';', '{}']
INVALID = ['a = ;', 'function (', '"unterminated', 'x = /[a;', 'y = 1; z = /re', 'f(/(/)', 'function(arg) {};',
           'a = 1;\nfunction () { return 1 }', ')', u'var \u00e9 = @;']


@st.composite
def scenario(draw):
    n = draw(st.integers(1, 3))
    progs = []
    for _ in range(n):
        if draw(st.booleans()):
            progs.append(draw(st.sampled_from(SMALL)))
        else:
            progs.append(draw(gen_program.program_strategy(max_fuel=2, layout_levels=(1, 2)))['text'])
    sc = {
        'programs': progs,
        'read_factory': [draw(st.booleans()) for _ in progs],
        'printer': draw(st.sampled_from(['pretty', 'min', 'obf'])),
        'map': draw(st.sampled_from(['none', 'separate', 'same', 'factory'])),
        'out_factory': draw(st.booleans()),
        'names': draw(st.sampled_from(sorted(NAMES))),
        'norm_mappings': draw(st.booleans()),
        'norm_paths': draw(st.booleans()),
        'url': draw(st.sampled_from(['default', 'default', 'explicit', 'none'])),
        'as_list': draw(st.booleans()),
        'nodes_as': draw(st.sampled_from(['list', 'list', 'tuple', 'iterator', 'generator'])),
        'invalid_index': None,
    }
    if draw(st.integers(0, 9)) == 0:
        # a single node (not a list) whose printed form may be empty
        sc['programs'] = [draw(st.sampled_from(EMPTYISH))]
        sc['read_factory'] = sc['read_factory'][:1]
        sc['as_list'] = False
        n = 1
    if draw(st.integers(0, 7)) == 0:
        i = draw(st.integers(0, n - 1))
        sc['programs'][i] = draw(st.sampled_from(INVALID))
        sc['invalid_index'] = i
        sc['programs'] = sc['programs'][:i + 1]
        sc['read_factory'] = sc['read_factory'][:i + 1]
    if draw(st.integers(0, 2)) == 0:
        sc['fault_class'] = 'base'
    if sc['invalid_index'] is None and draw(st.integers(0, 15)) == 0:
        # a long program: the serialised map runs to tens of kilobytes (block-wise writers, buffers)
        k = draw(st.sampled_from([150, 400, 700, 1100]))
        unit = draw(st.sampled_from(['function f%d(a, b) { return a + b * %d; }\n', 'var v%d = [%d, "s", /r/g];\n',
                                     'o.p%d = function (x) { if (x) { return x.q(%d); } };\n']))
        sc['programs'] = [''.join(unit % (i, i) for i in range(k))]
        sc['read_factory'] = sc['read_factory'][:1]
        sc['big'] = k
        sc['map'] = draw(st.sampled_from(['same', 'same', 'separate', 'factory']))
    if draw(st.integers(0, 11)) == 0:
        # the output (or the separate map) is a stream opened in binary mode
        sc['binary'] = 'map' if (sc['map'] in ('separate', 'factory') and draw(st.booleans())) else 'out'
        return sc
    if draw(st.integers(0, 3)) == 0:
        sc['encoding'] = draw(st.sampled_from(['utf-8', 'utf-16', 'ascii', 'latin-1', 'shift_jis']))
        if sc['invalid_index'] is None and draw(st.booleans()):
            # steer towards the interesting corner: an inline map holding characters outside the code page
            sc['programs'][0] = draw(st.sampled_from(SMALL[-2:]))
            sc['map'] = draw(st.sampled_from(['same', 'same', 'separate']))
    return sc


def plan(tier, seed):
    n = 160 if tier == 'quick' else 5600
    return [{'name': 'sc-%d' % k, 'kind': 'sc', 'n': n // 16, 'hseed': seed * 1000 + k} for k in range(16)]


def run_shard(shard):
    from harness.hyp import run_given
    from harness import pdiff
    acc = Acc()
    opens = shard['open_signatures']

    def body(sc):
        # sources must be accepted (except the deliberately invalid one)
        for i, p in enumerate(sc['programs']):
            ok = pdiff.calmjs_parse(p)[0] == 'ok'
            if (sc['invalid_index'] == i) == ok:
                acc.skipped['program_acceptance_not_as_intended'] += 1
                return
        execs, nt = check_scenario(acc, opens, sc)
        acc.evaluations += execs
        acc.extra['scenarios'] = acc.extra.get('scenarios', 0) + 1
        acc.extra['fault_points'] = acc.extra.get('fault_points', 0) + execs - 1
        if len(acc.samples) < 4:
            acc.samples.append({'scenario': sc, 'executions': execs})
        acc.label('map_' + sc['map'])
        acc.label('names_' + sc['names'])
    run_given(scenario(), body, shard['n'], shard['hseed'], acc)
    return acc.result()


def finish(m, cov, tier):
    cov['fault_points'] = m['extra'].get('fault_points', 0)
    cov['scenarios'] = m['extra'].get('scenarios', 0)
    cov['exhaustive_part'] = 'every event of every generated scenario received one injected fault'
