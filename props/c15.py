"""C15 - parsing is a pure function of the text: no history or thread effects."""
import itertools
import json
import subprocess
import sys
import threading

from hypothesis import strategies as st

from harness.runner import Acc
from harness import build

PROPERTY = 'C15'
LEVEL = 'exploration'
RULE = ('pool of 26 texts chosen to leave lexer/ply state dirty (valid programs, unterminated string, mismatched ")", '
        'open "if(" header, text ending inside a regex, text ending right after an inserted semicolon, comments, '
        'CRLF, texts that begin with a regex literal and texts that end on a division-implying token without a semicolon, a function-expression statement (ProductionError path), regex after "}" (back-tracking path), U+2028, texts that end with comments still pending, an error reported with a look-ahead across a line break at ++, a directive prologue followed by the words only strict code reserves used as identifiers) '
        'x comment-capture flag = 52 calls, plus 8 calls through the calmjs.parse.es5 helper object, plus the deferred arrangement (the Parser object of call A is built, call B runs completely, then the object parses A). The expected outcome of each call - ReprWalker dump with positions plus '
        'attached comments plus the per-node table of literal-token positions, or exception type and message - is computed in a fresh interpreter per text. '
        '(i) exhaustively all call sequences of length <= 2 (quick) / <= 3 (thorough) in one process, every result '
        'compared with the fresh-process value; (ii) Hypothesis-generated long histories (<= 200 steps) that also '
        'interleave pretty/minify printing and bare Lexer iteration; (iii) thread pools of 2-16 threads (in an interpreter of their own; no parse finishing in any thread for 90 s is a blocked parse, a violation) parsing the '
        'pool concurrently (through parse() and through the es5 helper object) under sys.setswitchinterval in {1e-6, 1e-5, 1e-4, 5e-3}. non-trivial = a history in which '
        'a failing parse or a different comment flag immediately precedes the compared parse; distinct by history')
ASSUMPTIONS = ['thread interleavings are only sampled (randomised stress, the harness does not own the schedule)',
               'expected outcomes come from the code under test in a fresh interpreter: this check decides history '
               'independence, not correctness of a single parse (C03 does that)']

TEXTS = [
    'var a = 1; function f(x) { return x + a; }',
    'a = "unterminated',
    'f(a, b));',
    'if (a',
    'x = /re',
    'return\n',
    '/*lead*/ a /*mid*/ = b; // tail\nc',
    'a = 1;\r\nb = 2;\r\n',
    'function(){}();',
    'if (a) { b } /re/.test(c)',
    'a\n++\nb',
    'x = 1' + chr(0x2028) + 'y = 2',
    'for (var i = 0; i < n; i++) { o = { get p() { return 1 }, set p(v) {} } }',
    'a ? b : c ? d : e, [1,,2], new new X()()',
    '"\\8"',
    '',
    '/re/.test(x);',
    'a = b',
    'i++',
    '/=/g.exec(y) / 2',
    'a = 1; // the text ends inside a comment',
    'b; /* pending */ /* comments */',
    # an error whose reporting looks one token ahead, across a line break, at ++
    'a b\n++c',
    'x\n',
    # a directive prologue, then the words only strict code reserves, as plain identifiers
    '"use strict"; function g() { \'use strict\'; return 1 }',
    'var let = 1, static = 2; yield = interface + package; implements: private = public(protected);',
]
CALLS = [(i, wc) for i in range(len(TEXTS)) for wc in (False, True)]
# texts that are also parsed through the `calmjs.parse.es5(...)` helper object (same parser behind it)
VIA_FACTORY = [0, 1, 6, 16]
FCALLS = [(i, wc) for i in VIA_FACTORY for wc in (False, True)]

ROOT = None
EXPECTED = None


def set_root(root):
    global ROOT
    ROOT = root


OUTCOME_CODE = r'''
import json, sys
def outcome(text, wc, between=None, parse=None):
    from calmjs.parse.parsers.es5 import Parser
    from calmjs.parse.walkers import ReprWalker, Walker
    if parse is None:
        from calmjs.parse.parsers.es5 import parse
    try:
        if between is None:
            t = parse(text, with_comments=wc)
        else:
            # the parser object is built first, another complete parse runs, then the object is used (once)
            p = Parser(with_comments=wc)
            try:
                parse(between[0], with_comments=between[1])
            except Exception:
                pass
            t = p.parse(text)
    except Exception as e:
        return ['error', type(e).__name__, str(e)]
    dump = ReprWalker().walk(t, pos=True)
    comments = []
    tokens = []
    for n in [t] + list(Walker().walk(t)):
        cs = getattr(n, 'comments', None)
        if cs is not None:
            for c in cs.children():
                comments.append([type(n).__name__, c.value, c.lexpos, c.lineno, c.colno])
        tm = getattr(n, '_token_map', None)
        if tm:
            # the positions recorded for the literal tokens of the node (what source maps are built from)
            tokens.append([type(n).__name__, sorted([k, [list(x) for x in v]] for k, v in tm.items())])
    return ['tree', dump, comments, tokens]
'''


_ons = {}


def outcome(text, wc, via='parse', between=None):
    if 'outcome' not in _ons:
        exec(OUTCOME_CODE, _ons)
    if via == 'deferred':
        return _ons['outcome'](text, wc, between)
    if via == 'factory':
        import calmjs.parse
        # the same outcome function, with the helper object standing in for parse(); the optional
        # argument is left out when it has its default value, as callers do
        return _ons['outcome'](text, wc, None, lambda text, with_comments=False: (
            calmjs.parse.es5(text, with_comments=True) if with_comments else calmjs.parse.es5(text)))
    return _ons['outcome'](text, wc)


def expected_outcomes(root):
    """fresh interpreter per text"""
    out = {}
    procs = []
    for i, text in enumerate(TEXTS):
        code = build.boot_code(root) + OUTCOME_CODE + (
            "\ntext = json.loads(sys.argv[1])\n"
            "print(json.dumps([outcome(text, False), outcome(text, True)]))\n")
        procs.append((i, subprocess.Popen([sys.executable, '-c', code, json.dumps(text)], env=build.child_env(root),
                                          stdout=subprocess.PIPE, stderr=subprocess.PIPE, text=True)))
    for i, p in procs:
        so, se = p.communicate(timeout=120)
        if p.returncode != 0:
            raise RuntimeError('fresh interpreter failed for text %d: %s' % (i, se[-500:]))
        a, b = json.loads(so.strip().splitlines()[-1])
        out[(i, False)] = a
        out[(i, True)] = b
    return out


def plan(tier, seed):
    exp = expected_outcomes(ROOT)
    quick = tier == 'quick'
    packed = [[i, wc, exp[(i, wc)]] for (i, wc) in CALLS]
    shards = []
    L = 2 if quick else 3
    for k in range(16):
        shards.append({'name': 'seq-%d' % k, 'kind': 'seq', 'k': k, 'of': 16, 'len': L, 'expected': packed})
    n = 240 if quick else 5000
    for k in range(8):
        shards.append({'name': 'hist-%d' % k, 'kind': 'hist', 'n': n // 8, 'hseed': seed * 1000 + k,
                       'expected': packed})
    nt = 4000 if quick else 200000
    for k in range(8):
        shards.append({'name': 'thr-%d' % k, 'kind': 'threads', 'parses': nt // 8, 'hseed': seed * 1000 + 50 + k,
                       'expected': packed, 'interval': [1e-6, 1e-5, 1e-4, 5e-3][k % 4], 'threads': [2, 4, 8, 16][k // 2 % 4]})
    return shards


def unpack(shard):
    return dict(((i, wc), o) for i, wc, o in shard['expected'])


def run_history(acc, opens, exp, history, origin):
    """history: list of ops ['parse', i, wc] | ['print', i, kind] | ['lex', i]"""
    prev = None
    interesting = False
    for step, op in enumerate(history):
        if op[0] in ('parse', 'fparse', 'dparse'):
            i, wc = op[1], op[2]
            if op[0] == 'dparse':
                got = outcome(TEXTS[i], wc, 'deferred', (TEXTS[op[3]], op[4]))
            else:
                got = outcome(TEXTS[i], wc, 'factory' if op[0] == 'fparse' else 'parse')
            want = exp[(i, wc)]
            if op[0] == 'dparse' and (op[4] != wc or exp[(op[3], op[4])][0] == 'error'):
                interesting = True
            if prev is not None and prev[0] in ('parse', 'fparse', 'dparse') and (
                    exp[(prev[1], prev[2])][0] == 'error' or prev[2] != wc):
                interesting = True
            if got != want:
                acc.fail(None, {'history': history[:step + 1], 'origin': origin},
                         {'bucket': 'outcome_depends_on_history', 'text': TEXTS[i], 'with_comments': wc,
                          'got': json.dumps(got)[:400], 'fresh_process': json.dumps(want)[:400]}, opens)
                return interesting
        elif op[0] == 'print':
            from calmjs.parse.parsers.es5 import parse
            from calmjs.parse.unparsers.es5 import pretty_print, minify_print
            try:
                t = parse(TEXTS[op[1]])
                (pretty_print if op[2] == 0 else minify_print)(t)
            except Exception:
                pass
        else:
            from calmjs.parse.lexers.es5 import Lexer
            try:
                lx = Lexer(with_comments=bool(op[2]) if len(op) > 2 else False)
                lx.input(TEXTS[op[1]])
                for n, _ in enumerate(lx):
                    if n > 10000:
                        break
            except Exception:
                pass
        prev = op
    return interesting


def replay(case, acc):
    exp = expected_outcomes(ROOT or build._made[-1])
    if case.get('kind') == 'threads':
        run_threads(acc, (), exp, case['threads'], case['interval'], case['parses'], case['seed'])
    else:
        run_history(acc, (), exp, case['history'], case.get('origin', 'replay'))


THREAD_DRIVER = r"""
import random, threading
job = json.loads(sys.stdin.read())
TEXTS, CALLS, EXP = job['texts'], job['calls'], dict(((i, wc), e) for i, wc, e in job['expected'])
import calmjs.parse
def via_factory(text, with_comments=False):
    return calmjs.parse.es5(text, with_comments=True) if with_comments else calmjs.parse.es5(text)
sys.setswitchinterval(job['interval'])
failures, lock, done = [], threading.Lock(), [0]
def worker(tid):
    rnd = random.Random(job['seed'] * 1000 + tid)  # schedule of calls per thread: harness-side only
    for _ in range(job['per']):
        i, wc = CALLS[rnd.randrange(len(CALLS))]
        # a third of the calls go through the calmjs.parse.es5 helper object
        if rnd.randrange(3) == 0:
            got = outcome(TEXTS[i], wc, None, via_factory)
        else:
            got = outcome(TEXTS[i], wc)
        with lock:
            done[0] += 1
            if done[0] % 25 == 0:
                sys.stdout.write('P %d\n' % done[0]); sys.stdout.flush()
            if json.loads(json.dumps(got)) != EXP[(i, wc)]:
                failures.append((i, wc, got))
                return
threads = [threading.Thread(target=worker, args=(t,)) for t in range(job['threads'])]
for t in threads:
    t.daemon = True
    t.start()
for t in threads:
    t.join()
sys.stdout.write('R ' + json.dumps(failures[:1]) + '\n'); sys.stdout.flush()
"""
STALL_S = 90   # no parse finished in any thread for this long although each takes milliseconds: blocked


def run_threads(acc, opens, exp, nthreads, interval, parses, seed, root=None):
    """thread stress in an interpreter of its own: a blocked thread cannot take the worker with it"""
    import queue
    root = root or ROOT or build._made[-1]
    per = max(1, parses // nthreads)
    job = {'texts': TEXTS, 'calls': [list(c) for c in CALLS], 'expected': [[i, wc, exp[(i, wc)]] for (i, wc) in CALLS],
           'interval': interval, 'seed': seed, 'per': per, 'threads': nthreads}
    code = build.boot_code(root) + OUTCOME_CODE + THREAD_DRIVER
    p = subprocess.Popen([sys.executable, '-c', code], env=build.child_env(root), stdin=subprocess.PIPE,
                         stdout=subprocess.PIPE, stderr=subprocess.PIPE, text=True)
    q = queue.Queue()

    def pump():
        for line in p.stdout:
            q.put(line)
        q.put(None)
    threading.Thread(target=pump, daemon=True).start()
    p.stdin.write(json.dumps(job))
    p.stdin.close()
    case = {'kind': 'threads', 'threads': nthreads, 'interval': interval, 'parses': parses, 'seed': seed}
    progress, result = 0, None
    while True:
        try:
            line = q.get(timeout=STALL_S)
        except queue.Empty:
            p.kill()
            acc.fail(None, case, {'bucket': 'concurrent_parse_never_returned', 'finished_parses': progress,
                                  'stalled_for_s': STALL_S}, opens)
            return progress
        if line is None:
            break
        if line.startswith('P '):
            progress = int(line[2:])
        elif line.startswith('R '):
            result = json.loads(line[2:])
    p.wait()
    if result is None:
        raise RuntimeError('thread driver failed: %s' % p.stderr.read()[-600:])
    if result:
        i, wc, got = result[0]
        acc.fail(None, case,
                 {'bucket': 'outcome_depends_on_concurrent_parses', 'text': TEXTS[i], 'with_comments': wc,
                  'got': json.dumps(got)[:300], 'fresh_process': json.dumps(exp[(i, wc)])[:300]}, opens)
    return per * nthreads


def run_shard(shard):
    from harness.hyp import run_given
    acc = Acc()
    opens = shard['open_signatures']
    exp = unpack(shard)
    if shard['kind'] == 'seq':
        n = 0
        allcalls = [('parse',) + c for c in CALLS] + [('fparse',) + c for c in FCALLS]
        for L in range(1, shard['len'] + 1):
            for idx, seq in enumerate(itertools.product(range(len(allcalls)), repeat=L)):
                if idx % shard['of'] != shard['k']:
                    continue
                history = [list(allcalls[c]) for c in seq]
                nt = run_history(acc, opens, exp, history, 'sequence')
                n += 1
                acc.case(tuple(seq), nt, {'history': history} if n % 97 == 0 else None)
        # every ordered pair once more with the first call's parser object built before the second call runs
        for idx, (a, b) in enumerate(itertools.product(range(len(CALLS)), repeat=2)):
            if idx % shard['of'] != shard['k']:
                continue
            history = [['dparse', CALLS[a][0], CALLS[a][1], CALLS[b][0], CALLS[b][1]]]
            nt = run_history(acc, opens, exp, history, 'deferred_parser')
            n += 1
            acc.case(('d', a, b), nt, {'history': history} if n % 97 == 0 else None)
        acc.extra['sequences_enumerated'] = n
    elif shard['kind'] == 'hist':
        op = st.one_of(
            st.tuples(st.just('parse'), st.integers(0, len(TEXTS) - 1), st.booleans()),
            st.tuples(st.just('parse'), st.integers(0, len(TEXTS) - 1), st.booleans()),
            st.tuples(st.just('fparse'), st.sampled_from(VIA_FACTORY), st.booleans()),
            st.tuples(st.just('dparse'), st.integers(0, len(TEXTS) - 1), st.booleans(),
                      st.integers(0, len(TEXTS) - 1), st.booleans()),
            st.tuples(st.just('print'), st.integers(0, len(TEXTS) - 1), st.integers(0, 1)),
            st.tuples(st.just('lex'), st.integers(0, len(TEXTS) - 1), st.booleans()),
        ).map(list)

        def body(history):
            nt = run_history(acc, opens, exp, history, 'random_history')
            acc.case(json.dumps(history), nt, {'history': history[:40], 'length': len(history)})
            acc.label('history_len_%d' % (len(history) // 50 * 50))
        run_given(st.lists(op, min_size=2, max_size=200), body, shard['n'], shard['hseed'], acc)
    else:
        done = run_threads(acc, opens, exp, shard['threads'], shard['interval'], shard['parses'], shard['hseed'],
                           shard['root'])
        acc.evaluations += 1
        acc.nontrivial.add(hash(('threads', shard['threads'], shard['interval'], shard['hseed'])))
        acc.samples.append({'threads': shard['threads'], 'switch_interval': shard['interval'], 'parses': done})
        acc.extra['threaded_parses'] = done
        acc.label('threads_%d_interval_%g' % (shard['threads'], shard['interval']))
    return acc.result()


def finish(m, cov, tier):
    cov['exhaustive_part'] = 'all %d call sequences of length <= %d over the 52 calls' % (
        m['extra'].get('sequences_enumerated', 0), 2 if tier == 'quick' else 3)
    cov['thread_note'] = 'randomised stress only: %d threaded parses, schedule not controlled' % m['extra'].get(
        'threaded_parses', 0)
