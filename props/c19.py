"""C19 - literal data in a program is extracted as the equal Python value."""
import json
import math

from hypothesis import strategies as st

from harness.runner import Acc
from harness import pdiff

PROPERTY = 'C19'
LEVEL = 'exploration'
RULE = ('JSON values generated recursively (null, booleans, integers incl. huge, fractional and exponent numbers, '
        'negative numbers and zeros, numbers beyond the range of a double in either direction, strings, arrays, objects with arbitrary string keys incl. empty and duplicate) and '
        'written by the harness\'s own serialiser with drawn spellings: number forms 12 / -12 / 1.50 / 1e3 / 1E+3 / -0 / '
        '0.000001, each string character raw or as one of its JSON escapes (\\" \\\\ \\/ \\b \\f \\n \\r \\t \\uXXXX, '
        'surrogate pairs for astral characters; a quarter of the characters from a pool of text that is in no Unicode normalisation form), arbitrary JSON white space; content restricted to what is valid in both '
        'JSON and an ES5 string literal. Contexts: var x = V; x = V; var x = V inside function f(){}; two bindings in one '
        'statement; the same name bound twice by var then assignment and by assignment then var (the last binding is what the dictionary holds); x fold_ops in {False, True}; every tree is converted a second time after the caller has emptied and refilled every container of the first result. Oracle: ast_to_dict(parse(ctx(V)), fold_ops) holds under the name '
        'exactly json.loads(V) by typed equality (bool/int/float distinguished, sign of zero, strings by code point) '
        'and the dictionary has exactly the expected keys. non-trivial = nesting depth >= 2, or a negative/fractional '
        'number, or an escaped character; distinct by (text, context, fold_ops)')
ASSUMPTIONS = ['json.loads of the Python standard library is the reference reading of the literal text']


def typed_eq(a, b):
    if type(a) is not type(b):
        return False
    if isinstance(a, float):
        if math.isnan(a) or math.isnan(b):
            return False
        return a == b and math.copysign(1, a) == math.copysign(1, b)
    if isinstance(a, list):
        return len(a) == len(b) and all(typed_eq(x, y) for x, y in zip(a, b))
    if isinstance(a, dict):
        return list(sorted(a)) == list(sorted(b)) and all(typed_eq(a[k], b[k]) for k in a)
    return a == b


# -- generator ---------------------------------------------------------------

SAFE_CHARS = st.one_of(
    st.sampled_from(list('abcxyzABC019 _-+*.,:;!?()[]{}<>=#@$%^&|~`')),
    st.sampled_from(['"', '\\', '/', '\b', '\f', '\n', '\r', '\t', "'", u'\u00e9', u'\u65e5', u'\U0001d4b3', u'\U0001f600',
                     u'\uffff', u'\x7f', chr(0xa0), u'\x01', u'\x1f', chr(0x2028), chr(0x2029)]),
    st.characters(blacklist_categories=('Cs',)),
    # text that is not in a Unicode normalisation form: singletons, compatibility characters, combining marks (also
    # in non-canonical order) and conjoining jamo next to their bases - a JSON parser normalises nothing
    st.sampled_from([chr(0x212b), chr(0x2126), chr(0xf900), chr(0x0340), chr(0x0344), chr(0xfb01), chr(0xb5), chr(0x1e9b),
                     'e', 'a', 'o', chr(0x301), chr(0x327), chr(0x323), chr(0x308), chr(0x1100), chr(0x1161), chr(0x11a8),
                     chr(0x3b9), chr(0x345), chr(0xff21), chr(0x130)]),
)
MUST_ESCAPE = set('"\\') | set(chr(c) for c in range(0x20)) | {chr(0x2028), chr(0x2029)}
SHORT = {'"': '\\"', '\\': '\\\\', '/': '\\/', '\b': '\\b', '\f': '\\f', '\n': '\\n', '\r': '\\r', '\t': '\\t'}


RAW_SNIPPETS = ['\\\\\\/', '\\/\\\\', '\\\\/', '\\ud83d', '\\ude00', '\\ude00\\ud83d', '\\ud83d\\ude00\\ud83d', '\\uD800x',
                '\\\\ud83d\\ude00', '\\"\\/', '\\u005c\\/']


def uescape(ch):
    cp = ord(ch)
    if cp < 0x10000:
        return '\\u%04x' % cp
    cp -= 0x10000
    return '\\u%04x\\u%04x' % (0xd800 + (cp >> 10), 0xdc00 + (cp & 0x3ff))


WORD_STRINGS = ['"undefined"', '"null"', '"true"', '"false"', '"NaN"', '"Infinity"', '"-0"', '"0"', '""', '"__proto__"',
                '"constructor"', '"use strict"', '"[object Object]"', '"1e3"']


@st.composite
def json_string(draw):
    if draw(st.integers(0, 19)) == 0:
        # strings whose content is spelled like a keyword, a number or a special name
        return draw(st.sampled_from(WORD_STRINGS)), False
    chars = draw(st.lists(SAFE_CHARS, max_size=8))
    out = ['"']
    escaped = False
    for ch in chars:
        mode = draw(st.integers(0, 5))
        if draw(st.integers(0, 24)) == 0:
            # escape sequences next to one another, and surrogate escapes that do not form a pair
            out.append(draw(st.sampled_from(RAW_SNIPPETS)))
            escaped = True
        if ch in MUST_ESCAPE:
            if ch in SHORT and mode % 2 == 0:
                out.append(SHORT[ch])
            else:
                out.append(uescape(ch).upper().replace('\\U', '\\u') if mode == 1 else uescape(ch))
            escaped = True
        elif mode == 0 and ch in SHORT:
            out.append(SHORT[ch])
            escaped = True
        elif mode == 1:
            out.append(uescape(ch))
            escaped = True
        else:
            out.append(ch)
    out.append('"')
    return ''.join(out), escaped


@st.composite
def json_number(draw):
    kind = draw(st.sampled_from(['int', 'int', 'neg', 'frac', 'exp', 'zero', 'huge', 'small', 'range']))
    if kind == 'range':
        # beyond the range of a double in either direction: a JSON parser gives an infinity or a zero
        return draw(st.sampled_from(['1e400', '1E+999', '1.7976931348623159e308', '2e308', '1e309', '12345e305',
                                     '1e-400', '4e-324', '2e-324', '0.1e-323', '9' * 320, '1' + '0' * 309])), True
    if kind == 'int':
        return str(draw(st.integers(0, 10 ** 6))), False
    if kind == 'neg':
        return '-' + draw(json_number())[0].lstrip('-'), True
    if kind == 'frac':
        return '%d.%s' % (draw(st.integers(0, 999)), draw(st.text('0123456789', min_size=1, max_size=6))), True
    if kind == 'exp':
        return '%d%s%s%s%d' % (draw(st.integers(0, 99)),
                               draw(st.sampled_from(['', '.5', '.25', '.0'])),
                               draw(st.sampled_from(['e', 'E'])), draw(st.sampled_from(['', '+', '-'])),
                               draw(st.integers(0, 30))), True
    if kind == 'zero':
        return draw(st.sampled_from(['0', '-0', '0.0', '-0.0', '0e0', '-0e5', '0.000'])), True
    if kind == 'huge':
        return str(draw(st.integers(10 ** 15, 10 ** 40))), False
    return draw(st.sampled_from(['0.000001', '1e-7', '5e-324', '1.7976931348623157e308', '0.1', '2.5'])), True


WS = st.sampled_from(['', '', ' ', '  ', '\n', '\t', '\r\n', ' \n '])


@st.composite
def json_value(draw, depth=0):
    """-> (text, depth, interesting)"""
    kinds = ['null', 'true', 'false', 'num', 'num', 'str', 'str']
    if depth < 4:
        kinds += ['arr', 'obj', 'arr', 'obj']
    k = draw(st.sampled_from(kinds))
    if k in ('null', 'true', 'false'):
        return k, 0, False
    if k == 'num':
        t, i = draw(json_number())
        return t, 0, i
    if k == 'str':
        t, i = draw(json_string())
        return t, 0, i
    n = draw(st.integers(0, 4))
    parts = []
    keys = []
    maxd = 0
    inter = False
    for _ in range(n):
        t, d, i = draw(json_value(depth + 1))
        maxd = max(maxd, d)
        inter = inter or i
        if k == 'obj':
            if keys and draw(st.integers(0, 5)) == 0:
                key = keys[draw(st.integers(0, len(keys) - 1))]  # duplicate key
            else:
                key, ki = draw(json_string())
                inter = inter or ki
            keys.append(key)
            t = key + draw(WS) + ':' + draw(WS) + t
        parts.append(draw(WS) + t + draw(WS))
    body = ','.join(parts)
    if not parts:
        body = draw(WS)
    return ('[' + body + ']') if k == 'arr' else ('{' + body + '}'), maxd + 1, inter


CONTEXTS = ['var', 'assign', 'function', 'two', 'rebind', 'rebind_var']


def build(ctx, v, v2):
    if ctx == 'var':
        return 'var x = %s;' % v, lambda d: d, ['x']
    if ctx == 'assign':
        return 'x = %s;' % v, lambda d: d, ['x']
    if ctx == 'function':
        return 'function f() { var x = %s; }' % v, None, ['f']
    if ctx == 'rebind':
        # the same name bound twice: the dictionary holds what the last binding statement gives
        return 'var x = %s; x = %s;' % (v, v2), lambda d: d, ['x']
    if ctx == 'rebind_var':
        return 'x = %s; var x = %s;' % (v, v2), lambda d: d, ['x']
    return 'var x = %s, y = %s;' % (v, v2), lambda d: d, ['x', 'y']


def check(acc, opens, ctx, v, v2, fold):
    return _check(acc, opens, ctx, v, v2, fold, top=True)


def _check(acc, opens, ctx, v, v2, fold, top=False):
    from calmjs.parse.unparsers.extractor import ast_to_dict
    case = {'ctx': ctx, 'v': v, 'v2': v2, 'fold_ops': fold}
    try:
        want = json.loads(v)
        want2 = json.loads(v2)
    except ValueError as e:
        raise AssertionError('generator produced invalid JSON %r: %s' % (v, e))
    src, _, keys = build(ctx, v, v2)
    c = pdiff.calmjs_parse(src)
    if c[0] != 'ok':
        acc.fail(classify(v, v2, ctx, fold) if top else None, case, {'bucket': 'program_not_accepted', 'source': src, 'error': repr(c[1])[:200]},
                 opens)
        return False
    try:
        d = ast_to_dict(c[1], fold_ops=fold)
    except Exception as e:
        acc.fail(classify(v, v2, ctx, fold) if top else None, case, {'bucket': 'extract_raises:' + type(e).__name__, 'source': src,
                                         'error': repr(e)[:200]}, opens)
        return False
    if ctx == 'function':
        expect = {'f': [[], {'x': want}]}
    elif ctx == 'two':
        expect = {'x': want, 'y': want2}
    elif ctx in ('rebind', 'rebind_var'):
        expect = {'x': want2}
    else:
        expect = {'x': want}
    if not typed_eq(d, expect):
        acc.fail(classify(v, v2, ctx, fold) if top else None, case, {'bucket': 'value_differs', 'source': src, 'got': repr(d)[:300],
                                         'expected': repr(expect)[:300]}, opens)
        return False
    # the dictionary is the caller's: whatever is done to it, converting the same tree again gives the value again
    _scribble(d)
    try:
        d2 = ast_to_dict(c[1], fold_ops=fold)
    except Exception as e:
        acc.fail(None, case, {'bucket': 'second_extract_raises:' + type(e).__name__, 'source': src, 'error': repr(e)[:200]}, opens)
        return False
    if not typed_eq(d2, expect):
        acc.fail(None, case, {'bucket': 'second_conversion_differs', 'source': src, 'got': repr(d2)[:300],
                              'expected': repr(expect)[:300]}, opens)
        return False
    return True


def _scribble(x):
    if isinstance(x, dict):
        for v in list(x.values()):
            _scribble(v)
        x.clear()
        x['scribbled'] = [1]
    elif isinstance(x, list):
        for v in x:
            _scribble(v)
        del x[:]
        x.append({'scribbled': None})


def classify(v, v2, ctx=None, fold=None):
    # no listed finding is attributed to this property any more (the two string-escape findings were
    # repaired in d144726)
    return None


def replay(case, acc):
    check(acc, (), case['ctx'], case['v'], case['v2'], case['fold_ops'])


def plan(tier, seed):
    n = 4800 if tier == 'quick' else 240000
    return [{'name': 'json-%d' % k, 'kind': 'json', 'n': n // 16, 'hseed': seed * 1000 + k} for k in range(16)]


def run_shard(shard):
    from harness.hyp import run_given
    acc = Acc()
    opens = shard['open_signatures']
    strat = st.tuples(json_value(), json_value(), st.sampled_from(CONTEXTS), st.booleans())

    def body(x):
        (v, d, i), (v2, d2, i2), ctx, fold = x
        check(acc, opens, ctx, v, v2, fold)
        acc.case((v, v2 if ctx in ('two', 'rebind', 'rebind_var') else None, ctx, fold), d >= 2 or i, {'value': v, 'context': ctx, 'fold_ops': fold})
        acc.label('ctx_' + ctx)
        acc.label('depth_%d' % min(d, 5))
        acc.label('fold_%s' % fold)
    run_given(strat, body, shard['n'], shard['hseed'], acc)
    return acc.result()
