"""C20 - pretty output is indented exactly by block depth and ends with one newline."""
from hypothesis import strategies as st

from harness.runner import Acc
from harness import pdiff, gen_program, ref_es5, unparse
from harness.findings import walk
from props import c03

PROPERTY = 'C20'
LEVEL = 'exploration'
RULE = ('G1 programs biased towards nesting (blocks in blocks, empty blocks and bodies, object literals incl. nested '
        'and accessors, switch with empty / fall-through clauses and default anywhere, try/catch/finally, if-else '
        'chains, labelled blocks, multi-line strings; comments when parsed with capture), plus an enumerated family of programs nested 1..16 (thorough: 40) levels deep in 8 nesting patterns and of programs made long by one sibling list of 1200 items (printed under the default recursion limit), x indentation strings '
        '(" ", "  ", tab, " \\t", 8 spaces, empty, random) x way of printing (pretty_print; obfuscate or minify(drop_semi=False) rule sets stacked under rules.indent, which indent is documented to shadow; rules.indent() deferring to the indent_str of the Dispatcher). Oracle (R6): the *output* is tokenised and parsed by the '
        'reference front end; for each output line that starts a token (or a comment), expected depth = number of '
        'brace pairs of blocks, function bodies, object literals and switch blocks enclosing the line\'s first token '
        '(a closing brace counts outside its pair) + 1 inside the statement list of a case/default clause; the line '
        'must start with indent x depth and nothing else white; lines starting inside a multi-line token are '
        'exempt; non-empty text ends with exactly one newline. non-trivial = maximum depth >= 3 and an empty '
        'body/block/object adjacent to a non-empty one; distinct by (source, indent, comments)')
ASSUMPTIONS = c03.ASSUMPTIONS + ['a comment line is expected at the depth of the token that follows it']


def depths(ref):
    """depth of every token index of a reference parse"""
    n = len(ref.tokens)
    diff = [0] * (n + 2)

    def add(o, c):
        # tokens strictly between o and c
        if c > o + 1:
            diff[o + 1] += 1
            diff[c] -= 1
    empties = 0
    nonempties = 0
    for node in walk(ref.root):
        k = node.kind
        if k in ('Block', 'Object'):
            add(node.first, node.last)
            if node.last == node.first + 1:
                empties += 1
            else:
                nonempties += 1
        elif k in ('FuncDecl', 'FuncExpr', 'Getter', 'Setter'):
            body = node.fields[-1]
            o = body[0].first - 1 if body else node.last - 1
            add(o, node.last)
            if body:
                nonempties += 1
            else:
                empties += 1
        elif k == 'Switch':
            clauses = node.fields[1]
            o = clauses[0].first - 1 if clauses else node.last - 1
            add(o, node.last)
        elif k in ('Case', 'Default'):
            body = node.fields[-1]
            if body:
                diff[body[0].first] += 1
                diff[body[-1].last + 1] -= 1
                nonempties += 1
            else:
                empties += 1
    out = []
    cur = 0
    for i in range(n):
        cur += diff[i]
        out.append(cur)
    return out, empties, nonempties


def check_output(acc, opens, case, out, indent):
    """-> (max depth, had empty and non-empty) or None"""
    if out == '':
        return 0, False
    if not out.endswith('\n') or out.endswith('\n\n'):
        acc.fail(None, case, {'bucket': 'final_newline', 'tail': out[-10:]}, opens)
        return None
    r = pdiff.ref_parse(out)
    if r[0] != 'ok':
        acc.skipped['output_not_parsed_by_reference_is_C01'] += 1
        return None
    ref = r[1]
    dep, empties, nonempties = depths(ref)
    # items that may start a line: tokens and comments
    starts = {}
    for k in ref.tokens:
        starts[k.start] = ('tok', k)
    toks_sorted = ref.tokens
    for c in ref.comments:
        starts[c[2]] = ('comment', c)
    spans = [(k.start, k.end) for k in ref.tokens] + [(c[2], c[3]) for c in ref.comments]
    spans.sort()
    import bisect
    span_starts = [s for s, _ in spans]

    def inside_token(off):
        i = bisect.bisect_right(span_starts, off) - 1
        return i >= 0 and spans[i][0] < off < spans[i][1]

    def depth_at(off):
        """depth of the first real token at or after offset"""
        lo, hi = 0, len(toks_sorted)
        while lo < hi:
            mid = (lo + hi) // 2
            if toks_sorted[mid].start < off:
                lo = mid + 1
            else:
                hi = mid
        if lo >= len(toks_sorted):
            return 0
        return dep[lo]
    pos = 0
    maxdepth = 0
    for line in out.split('\n'):
        start = pos
        pos += len(line) + 1
        if inside_token(start):
            acc.label('line_inside_multiline_token')
            continue
        stripped = line.lstrip(' \t\x0b\x0c')
        if not stripped:
            if line:
                acc.label('whitespace_only_line')
            continue
        first_off = start + (len(line) - len(stripped))
        if first_off not in starts:
            # the first non-blank character is inside a token that started on an earlier line? covered above;
            # otherwise unknown material
            acc.label('line_first_char_not_token_start')
            continue
        d = depth_at(first_off)
        maxdepth = max(maxdepth, d)
        expected = indent * d
        lead = line[:len(line) - len(stripped)]
        if lead != expected:
            kind, item = starts[first_off]
            acc.fail(None, case, {'bucket': 'indent_mismatch', 'line': line[:80], 'depth': d,
                                  'leading': lead, 'expected': expected, 'starts_with': kind}, opens)
            return None
    return maxdepth, (empties > 0 and nonempties > 0)


PRINTERS = ['pretty_print', 'obfuscate+indent', 'minify+indent', 'indent_from_dispatcher']


def render(tree, indent, printer):
    """the documented ways of getting indented output: pretty_print; a rule set stacked under indent (which
    the documentation says indent shadows); rules.indent() without an argument, deferring to the string the
    Dispatcher was configured with"""
    if printer == 'pretty_print':
        return unparse.pretty(tree, indent)
    from functools import partial
    from calmjs.parse import rules
    from calmjs.parse.unparsers.es5 import Unparser
    from calmjs.parse.unparsers.walker import Dispatcher
    if printer == 'obfuscate+indent':
        u = Unparser(rules=(rules.obfuscate(obfuscate_globals=False), rules.indent(indent_str=indent)))
    elif printer == 'minify+indent':
        u = Unparser(rules=(rules.minify(drop_semi=False), rules.indent(indent_str=indent)))
    else:
        u = Unparser(rules=(rules.indent(),))
        u.dispatcher_cls = partial(Dispatcher, indent_str=indent)
    return ''.join(f.text for f in u(tree))


def check(acc, opens, src, indent, with_comments, origin, printer='pretty_print'):
    tree, ref = unparse.source_in_domain(acc, src, with_comments=with_comments)
    if tree is None:
        return None
    case = {'text': src, 'indent': indent, 'with_comments': with_comments, 'origin': origin, 'printer': printer}
    try:
        out = render(tree, indent, printer)
    except Exception as e:
        acc.fail(None, case, {'bucket': 'print_raises:' + type(e).__name__, 'error': repr(e)[:200]}, opens)
        return None
    res = check_output(acc, opens, case, out, indent)
    if res is None:
        return None
    return {'output': out, 'maxdepth': res[0], 'mixed': res[1]}


def replay(case, acc):
    check(acc, (), case['text'], case['indent'], case.get('with_comments', False), case.get('origin', 'replay'),
          case.get('printer', 'pretty_print'))


from harness.shrink import text_shrinker  # noqa: E402
shrink = text_shrinker(replay, 'text')



INDENTS = st.one_of(st.sampled_from([' ', '  ', '\t', ' \t', '        ', '']), st.text(alphabet=' \t', max_size=6),
                    # long strings (nothing bounds the length of an indentation string)
                    st.text(alphabet=' \t', min_size=9, max_size=40))


def deep_program(depth, pattern):
    """a program nested `depth` levels deep; pattern picks the kind of each level"""
    opens, closes = [], []
    for d in range(depth):
        k = pattern[d % len(pattern)]
        if k == 'b':
            opens.append('{ a%d;' % d)
            closes.append('}')
        elif k == 'f':
            opens.append('function f%d() { b%d;' % (d, d))
            closes.append('}')
        elif k == 'o':
            opens.append('x%d = { p%d: 1, q: function() {' % (d, d))
            closes.append('} };')
        elif k == 's':
            opens.append('switch (s%d) { case %d: c%d; default:' % (d, d, d))
            closes.append('}')
        elif k == 'i':
            opens.append('if (c%d) { t%d; } else {' % (d, d))
            closes.append('}')
        else:
            opens.append('try { u%d;' % d)
            closes.append('} catch (e%d) { }' % d)
    return ' '.join(opens) + ' leaf; ' + ' '.join(reversed(closes))


DEEP_PATTERNS = ['b', 'f', 'o', 's', 'bfos', 'it', 'sob', 'fi']


def plan(tier, seed):
    from harness import refgate
    refgate.run(200 if tier == 'quick' else 2000)
    n = 3200 if tier == 'quick' else 160000
    shards = [{'name': 'g1-%d' % k, 'kind': 'g1', 'n': n // 16, 'hseed': seed * 1000 + k} for k in range(16)]
    shards.append({'name': 'corpus', 'kind': 'corpus'})
    shards.append({'name': 'deep', 'kind': 'deep', 'max_depth': 16 if tier == 'quick' else 40})
    return shards


def run_shard(shard):
    from harness.hyp import run_given
    acc = Acc()
    opens = shard['open_signatures']

    def one(src, indent, wc, origin, printer='pretty_print'):
        info = check(acc, opens, src, indent, wc, origin, printer)
        nt = bool(info) and info['maxdepth'] >= 3 and info['mixed']
        acc.case((src, indent, wc, printer), nt, {'source': src, 'indent': indent, 'with_comments': wc,
                                                  'printer': printer, 'output': info['output']} if info else None)
        acc.label('printer_' + printer)
        if info:
            acc.label('maxdepth_%d' % min(info['maxdepth'], 6))
        acc.label('comments_%s' % wc)
    if shard['kind'] == 'deep':
        for depth in range(1, shard['max_depth'] + 1):
            for pat in DEEP_PATTERNS:
                for k, indent in enumerate(('  ', '\t', ' ')):
                    one(deep_program(depth, pat), indent, False, 'deep', PRINTERS[(depth + k) % len(PRINTERS)])
        # long rather than deep: one sibling list of many items
        import sys
        limit = sys.getrecursionlimit()
        sys.setrecursionlimit(1000)   # the interpreter's default
        try:
            for name, src in gen_program.long_lists(1200):
                one(src, '\t', False, 'long_' + name)
        finally:
            sys.setrecursionlimit(limit)
    elif shard['kind'] == 'g1':
        cfg = gen_program.Config(nesting_bias=True)
        strat = st.tuples(gen_program.program_strategy(cfg=cfg, min_fuel=3, max_fuel=7), INDENTS, st.booleans(),
                          st.sampled_from(['pretty_print', 'pretty_print'] + PRINTERS))
        run_given(strat, lambda x: one(x[0]['text'], x[1], x[2], 'g1', x[3]), shard['n'], shard['hseed'], acc)
    else:
        for src in c03.load_corpus():
            for indent in ('  ', '\t'):
                for wc in (False, True):
                    one(src, indent, wc, 'corpus')
    return acc.result()
