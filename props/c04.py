"""C04 - automatic semicolon insertion follows ECMA-262 7.9 exactly."""
from hypothesis import strategies as st

from harness.runner import Acc
from harness import pdiff, findings, canon, gen_program, ref_es5
from props import c03

PROPERTY = 'C04'
LEVEL = 'exploration'
RULE = ('(i) G1 statement sequences with explicit terminators; a Hypothesis-chosen subset of terminators is omitted, '
        'each omission followed by `}`/end of input or by a separator containing a line break (LF, CR, CRLF, U+2028, '
        'U+2029, comment before/after the break, multi-line comment as the only break); plus wild variants that put '
        'a line break into a restricted production or drop a for-header / empty-statement semicolon; '
        '(ii) the full product statement kind x separator x following text, enumerated. Oracle: the reference front '
        'end R1 implements 7.9.1 literally; acceptance and tree must equal R1\'s, and whenever R1 reads the variant '
        'as the same tree as the explicit text, calmjs must return for the variant exactly the tree it returns for '
        'the explicit text. non-trivial = R1 restores >= 1 omitted semicolon by the line-terminator rule (not only '
        'before } / at the end); distinct by text')
ASSUMPTIONS = c03.ASSUMPTIONS

STATEMENTS = ['var v = a', 'a = b', 'do x; while (c)', 'continue', 'continue L', 'break', 'break L', 'return',
              'return a', 'throw a', 'debugger', 'a++', 'f()', 'x = function(){}', 'y = {}', 'z = [1]', 'w = /re/',
              'n = 1', 's = "s"', 't = true', 'u = null', 'v = this', 'return 1.5', 'o.in', '(p)']
SEPARATORS = ['', ' ', '\n', '\r', '\r\n', u'\u2028', u'\u2029', '/*c*/', '/*a\nb*/', '//c\n', '\n/*c*/', '/*c*/\n',
              ' \n ', '/**/\n/**/ ', '/*a\rb*/', '/* c\r */ ', u'/*\u2029*/', '//c\r',
              # more than one line terminator
              '\n\n', '\n// c\n', '\n/* c */\n', u'\r\n\u2028']
FOLLOW = ['b', '1', '"s"', '(c)', '[0]', '{}', '+b', '-b', '++b', '--b', '/re/.x', '/re/g', '.x', 'var v2', 'if(c);',
          'function g(){}', '', ';', 'in c', 'instanceof c', ', c', '? c : d', '= c', 'else;', 'while(c);', '}',
          'new C', 'typeof c', '!c', 'this.x', 'null', 'case 1:', 'L: x', 'do;while(c)', '/= 2', '/ 2 / 1',
          # a token that holds a line terminator and is not preceded by one
          '"x\\\ny"', "'p\\\r\nq'.z"]
CONTEXTS = ['%s', 'function F(){ L: for(;;) { %s } }', '{ %s }', 'if (q) { %s } else { t }']


def product_cases():
    for ci, ctx in enumerate(CONTEXTS):
        for s in STATEMENTS:
            for sep in SEPARATORS:
                for f in FOLLOW:
                    if f == '}' and ci == 0:
                        continue
                    body = s + sep + f
                    if f == '}':
                        # the statement is the last of an inner block
                        body = '{ ' + s + sep + '} u'
                    yield ctx % body, (s, sep, f, ci)


def check_variant(acc, opens, text, explicit_text, origin):
    """differential + metamorphic clause; returns info of the variant"""
    info = c03.check_text(acc, text, opens, None, origin)
    if explicit_text is not None and info.get('calmjs') == 'ok' and info.get('ref') == 'ok' and 'refobj' in info:
        rex = pdiff.ref_parse(explicit_text)
        if rex[0] == 'ok' and rex[1].tree == info['refobj'].tree:
            cex = pdiff.calmjs_parse(explicit_text)
            if cex[0] == 'ok':
                t_ex = canon.canon_calmjs(cex[1])
                if t_ex != info['ctree']:
                    # only reachable if one of the two also disagrees with R1: report with the same classification
                    acc.label('metamorphic_mismatch')
                    f = {'kind': 'metamorphic', 'diff': canon.first_diff(info['ctree'], t_ex)}

                    def rerun(t2):
                        f2, _ = pdiff.compare(t2)
                        return f2
                    sig, extra = findings.classify_parse_failure(text, f, info, rerun)
                    d = dict(f)
                    d.update(extra)
                    d['bucket'] = 'metamorphic'
                    acc.fail(sig, {'text': text, 'origin': origin, 'explicit': explicit_text}, d, opens)
    return info


def replay(case, acc):
    check_variant(acc, (), case['text'], case.get('explicit'), case.get('origin', 'replay'))


from harness.shrink import text_shrinker  # noqa: E402
shrink = text_shrinker(replay, 'text')



def nontrivial_info(info):
    ref = info.get('refobj')
    if ref is None:
        return False, 0
    n = sum(1 for s in ref.semis if s['kind'] == 'inserted' and s.get('by') == 'newline')
    return n >= 1, n


def tok_class(tk):
    if isinstance(tk, gen_program.Tk):
        kind, text = tk.kind, tk.text
    else:
        kind, text = tk
    if kind == 'p':
        return text if text in (')', ']', '}', '(', '[', '{', '++', '--', '+', '-', '/', '.') else 'punct'
    if kind == 'kw':
        return text if text in ('return', 'break', 'continue', 'throw', 'var', 'function', 'if', 'else', 'do',
                                'while', 'in', 'instanceof', 'this') else 'kw'
    return kind


def plan(tier, seed):
    from harness import refgate
    refgate.run(200 if tier == 'quick' else 2000)
    quick = tier == 'quick'
    n = 2400 if quick else 100000
    shards = []
    for k in range(16):
        shards.append({'name': 'omit-%d' % k, 'kind': 'omit', 'n': n // 16, 'hseed': seed * 1000 + k})
    cases = sum(1 for _ in product_cases())
    ns = 16 if quick else 32
    for k in range(ns):
        shards.append({'name': 'prod-%d' % k, 'kind': 'prod', 'k': k, 'of': ns,
                       'stride': 2 if quick else 1})
    return shards


def run_shard(shard):
    from harness.hyp import run_given
    acc = Acc()
    opens = shard['open_signatures']
    if shard['kind'] == 'omit':
        @st.composite
        def variant(draw):
            cfg = gen_program.Config(div_weight=1)
            fuel = draw(st.integers(1, 5))
            g = gen_program.Gen(draw, cfg)
            tree, toks = g.program(fuel)
            level = draw(st.sampled_from([1, 2, 3]))
            layout = gen_program.Layout(level)
            explicit, _ = gen_program.render(draw, toks, gen_program.Layout(1))
            terms = [i for i, t in enumerate(toks) if 'term' in t.flags]
            mode = draw(st.integers(0, 9))
            drop = set()
            wild = None
            if terms:
                k = draw(st.integers(1, min(len(terms), 4)))
                for _ in range(k):
                    drop.add(terms[draw(st.integers(0, len(terms) - 1))])
            seps = []
            toks2 = list(toks)
            if mode == 0:
                # wild: line break inside a restricted production
                nolt = [i for i, t in enumerate(toks) if 'nolt' in t.flags]
                if nolt:
                    i = nolt[draw(st.integers(0, len(nolt) - 1))]
                    toks2[i] = gen_program.Tk(toks[i].text, toks[i].kind, toks[i].flags - {'nolt'})
                    wild = 'restricted_break'
            elif mode == 1:
                other = [i for i, t in enumerate(toks) if ('forsep' in t.flags or 'empty' in t.flags)]
                if other:
                    drop.add(other[draw(st.integers(0, len(other) - 1))])
                    wild = 'forsep_or_empty_dropped'
            text, _ = gen_program.render(draw, toks2, layout, drop=drop, seps_out=seps)
            if wild == 'restricted_break':
                # force a line break before that token by re-rendering minimal: insert "\n" textually
                pass
            return {'text': text, 'explicit': explicit, 'dropped': len(drop), 'wild': wild, 'seps': seps,
                    'level': level}

        def body(v):
            info = check_variant(acc, opens, v['text'], v['explicit'] if not v['wild'] else None, 'omit')
            nt, n = nontrivial_info(info)
            acc.case(v['text'], nt, {'text': v['text'], 'explicit': v['explicit'], 'omitted': v['dropped']})
            acc.label('ref_%s' % info.get('ref'))
            acc.label('omitted_%d' % min(v['dropped'], 4))
            if v['wild']:
                acc.label('wild_' + v['wild'])
            for prev, sep, nxt in v['seps']:
                acc.label('asi|%s|%s|%s' % (tok_class(prev), gen_program.sep_class(sep), tok_class(nxt)))
        run_given(variant(), body, shard['n'], shard['hseed'], acc)
    else:
        k, of, stride = shard['k'], shard['of'], shard['stride']
        n = 0
        for idx, (text, (s, sep, f, ci)) in enumerate(product_cases()):
            if idx % of != k:
                continue
            if stride > 1 and (idx // of) % stride != (shard['seed'] % stride):
                continue
            n += 1
            explicit = None
            info = check_variant(acc, opens, text, explicit, 'product')
            nt, _ = nontrivial_info(info)
            acc.case(text, nt, {'text': text} if n % 50 == 0 else None)
            acc.label('prod_ref_%s' % info.get('ref'))
            acc.label('prod_sep_' + gen_program.sep_class(sep))
        acc.extra['product_enumerated'] = n
        acc.extra['product_stride'] = [stride]
    return acc.result()


def finish(m, cov, tier):
    total = sum(1 for _ in product_cases())
    cov['product_total'] = total
    cov['exhaustive_part'] = ('statement kind x separator x following text x context product: %d of %d cases this run%s'
                              % (m['extra'].get('product_enumerated', 0), total,
                                 '' if tier != 'quick' else ' (quick tier: every 4th, phase chosen by seed)'))
    if tier != 'quick':
        cov['exhaustive'] = True
