"""C08 - emitted fragments carry the true source position of their token."""
from hypothesis import strategies as st

from harness.runner import Acc
from harness import pdiff, gen_program, ref_es5, positions, unparse
from props import c03

PROPERTY = 'C08'
LEVEL = 'exploration'
RULE = ('1-3 G1 programs under hostile layout (multi-line strings/comments, LF/CR/CRLF/U+2028/U+2029, exotic white '
        'space) or repository snippets, given distinct sourcepaths and printed one after the other by one printer '
        'object as io.write does - or, for two programs, the second tree spliced as a statement into a function body / block of the first, or one of its expressions replacing the expression of a statement of the first (nested sourcepath) - x printer in {pretty, minify, minify+drop_semi, minify+obfuscate, '
        'minify+obfuscate+globals} x comment capture. Oracle, for every yielded fragment with positive line and '
        'column: the reference token (or comment) of that source file starting at the reference offset of '
        '(line, column) is the fragment\'s token - equal text (strings after continuation stripping, comma runs: a '
        'comma), or equal to the recorded original name for renamed identifiers; the effective source of the fragment '
        '(its own, or inherited from the preceding fragment as sourcemap.write documents) is the sourcepath of the '
        'tree being printed. Semicolons: paired by index with the reference\'s semicolon slots, inserted slots exempt '
        '(drop_semi: counting rule). non-trivial = >= 3 source lines and >= 12 positioned fragments; distinct by '
        '(sources, printer, comments)')
ASSUMPTIONS = c03.ASSUMPTIONS + ['reference position arithmetic harness/positions.py']

PRINTERS = ['pretty', 'min', 'min_ds', 'obf', 'obf_g']


def make_printer(name):
    from calmjs.parse.unparsers.es5 import pretty_printer, minify_printer
    if name == 'pretty':
        return pretty_printer('  ')
    if name == 'min':
        return minify_printer()
    if name == 'min_ds':
        return minify_printer(drop_semi=True)
    if name == 'obf':
        return minify_printer(obfuscate=True)
    if name == 'obf_g':
        return minify_printer(obfuscate=True, obfuscate_globals=True)
    if name == 'obf_ds':
        return minify_printer(obfuscate=True, drop_semi=True, shadow_funcname=True)
    raise ValueError(name)


VIAS = ['assign', 'read_stream', 'read_callable', 'read_named']


def obtain(path, text, with_comments, via, tmpdir):
    """the tree of one file and the source name its fragments must carry.  'assign': parse(text) and
    sourcepath set by hand; otherwise through calmjs.parse.io.read as documented: from an open file,
    from a callable producing one, from an in-memory stream that has a name"""
    import io as _io
    import os
    from functools import partial
    from calmjs.parse import io as cio
    from calmjs.parse.parsers.es5 import parse

    def parser(t):
        return parse(t, with_comments=with_comments)
    if via == 'read_named':
        stream = _io.StringIO(text)
        stream.name = path
        return cio.read(parser, stream), path
    real = os.path.join(tmpdir, path.lstrip('/'))
    os.makedirs(os.path.dirname(real), exist_ok=True)
    with _io.open(real, 'w', encoding='utf-8', newline='') as fd:
        fd.write(text)
    if via == 'read_stream':
        with _io.open(real, encoding='utf-8', newline='') as fd:
            return cio.read(parser, fd), real
    return cio.read(parser, partial(_io.open, real, encoding='utf-8', newline='')), real


def collect(acc, opens, case, sources, printer_name, with_comments, via='assign'):
    """-> list of (file index, fragment) or None; sources = [(path, text)]"""
    import shutil
    import tempfile
    trees = []
    refs = []
    tmpdir = tempfile.mkdtemp(prefix='calmjs-c08-') if via not in ('assign', 'read_named') else None
    try:
        for i, (path, text) in enumerate(sources):
            tree, ref = unparse.source_in_domain(acc, text, with_comments=with_comments)
            if tree is None:
                return None, None
            if via == 'assign':
                tree.sourcepath = path
            else:
                try:
                    text.encode('utf-8')
                except UnicodeError:
                    acc.skipped['source_not_encodable'] += 1
                    return None, None
                try:
                    tree, name = obtain(path, text, with_comments, via, tmpdir)
                except Exception as e:
                    acc.fail(None, case, {'bucket': 'read_raises:' + type(e).__name__, 'error': repr(e)[:200]}, opens)
                    return None, None
                sources[i] = (name, text)
            trees.append(tree)
            refs.append(ref)
    finally:
        if tmpdir:
            shutil.rmtree(tmpdir, ignore_errors=True)
    if len(set(id(t) for t in trees)) != len(trees):
        acc.fail(None, case, {'bucket': 'one_tree_object_for_two_files',
                              'sourcepaths': [repr(t.sourcepath) for t in trees]}, opens)
        return None, None
    printer = make_printer(printer_name)
    frags = []
    try:
        gens = [printer(t) for t in trees]
        for i, g in enumerate(gens):
            for f in g:
                frags.append((i, f))
    except Exception as e:
        acc.fail(None, case, {'bucket': 'print_raises:' + type(e).__name__, 'error': repr(e)[:200]}, opens)
        return None, None
    return frags, refs


def collect_nested(acc, opens, case, sources, printer_name, with_comments, where):
    """the second program's tree (with its own sourcepath) is spliced as a statement into the first
    statement list found inside the first program (function body / block), then the first tree is
    printed: the walker's sourcepath stack must attribute every fragment to the right file"""
    from calmjs.parse.walkers import Walker
    trees, refs = [], []
    for path, text in sources:
        tree, ref = unparse.source_in_domain(acc, text, with_comments=with_comments)
        if tree is None:
            return None, None
        tree.sourcepath = path
        trees.append(tree)
        refs.append(ref)
    outer, inner = trees
    if outer is inner:
        acc.fail(None, case, {'bucket': 'one_tree_object_for_two_files'}, opens)
        return None, None
    if where % 3 == 0:
        # expression-level nesting: an expression of the second file (a sub-tree that emits nothing but
        # tokens, carrying the second file's sourcepath) replaces the expression of a statement of the first
        donors = [n for n in Walker().walk(inner) if type(n).__name__ == 'ExprStatement']
        targets = [n for n in Walker().walk(outer) if type(n).__name__ == 'ExprStatement']
        if donors and targets:
            expr = donors[(where // 3) % len(donors)].expr
            expr.sourcepath = sources[1][0]
            targets[(where // 11) % len(targets)].expr = expr
            try:
                frags = [(None, f) for f in make_printer(printer_name)(outer)]
            except Exception as e:
                acc.fail(None, case, {'bucket': 'print_raises:' + type(e).__name__, 'error': repr(e)[:200]}, opens)
                return None, None
            acc.label('nested_expression')
            return frags, refs
    hosts = [n for n in Walker().walk(outer) if type(n).__name__ in ('FuncDecl', 'FuncExpr', 'Block')]
    if not hosts:
        acc.skipped['no_host_for_nesting'] += 1
        return None, None
    host = hosts[where % len(hosts)]
    lst = host.elements if hasattr(host, 'elements') else host.children()
    if not isinstance(lst, list):
        acc.skipped['no_host_for_nesting'] += 1
        return None, None
    lst.insert((where // 7) % (len(lst) + 1), inner)
    try:
        frags = [(None, f) for f in make_printer(printer_name)(outer)]
    except Exception as e:
        acc.fail(None, case, {'bucket': 'print_raises:' + type(e).__name__, 'error': repr(e)[:200]}, opens)
        return None, None
    return frags, refs


def check_fragments(acc, opens, case, sources, frags, refs, printer_name):
    maps = [positions.LineMap(t) for _, t in sources]
    tok_at = [dict((k.start, k) for k in r.tokens) for r in refs]
    com_at = [dict((c[2], c) for c in r.comments) for r in refs]
    effective = None
    explicit = 0
    nested = printer_name.endswith('_nested')
    semi_frags = [[] for _ in sources]
    for idx, (fi, f) in enumerate(frags):
        text, line, col, name, source = f
        if source is not None:
            effective = source
        if fi is None:
            # nested mode: the file is whatever the fragment (effectively) names; it must be one of ours
            paths = [p for p, _ in sources]
            if isinstance(line, int) and isinstance(col, int) and line > 0 and col > 0:
                if effective not in paths:
                    if not (source is None and text in ('{', '}', ';')):
                        acc.fail(None, case, {'bucket': 'unknown_source', 'fragment': list(f)[:4] + [repr(source)],
                                              'effective_source': repr(effective)}, opens)
                        return None
                    continue
                fi = paths.index(effective)
            else:
                continue
        if not (isinstance(line, int) and isinstance(col, int) and line > 0 and col > 0):
            if text == ';':
                semi_frags[fi].append((idx, None))
            continue
        explicit += 1
        # source file
        if effective != sources[fi][0]:
            sig = None
            acc.fail(sig, case, {'bucket': 'wrong_source', 'fragment': list(f)[:4] + [repr(source)],
                                 'effective_source': repr(effective), 'expected': sources[fi][0]}, opens)
            if sig is None or sig not in opens:
                return None
            # listed finding: counted; keep judging the rest of the stream as if the file were right
            effective = sources[fi][0]
        off = maps[fi].offset(line, col)
        if off is None:
            acc.fail(None, case, {'bucket': 'no_such_position', 'fragment': [text, line, col, name]}, opens)
            return None
        if text == ';':
            semi_frags[fi].append((idx, off))
            continue
        k = tok_at[fi].get(off)
        c = com_at[fi].get(off)
        src_text = sources[fi][1]
        ok = False
        if name is not None:
            ok = k is not None and k.type == 'ident' and k.text == name
        elif k is not None:
            want = k.text
            if k.type == 'str':
                ok = unparse.CONT.sub('', want) == unparse.CONT.sub('', text)
            elif text and set(text) == {','}:
                ok = want == ','
            else:
                ok = (text == want) or (text.startswith(want) and text[len(want):].strip() == '')
        elif c is not None:
            ok = c[1] == text
        if not ok:
            acc.fail(None, case, {'bucket': 'position_not_on_token', 'fragment': [text, line, col, name],
                                  'source_there': src_text[off:off + 12],
                                  'token_there': k.text if k else (c[1] if c else None)}, opens)
            return None
    # semicolons
    for fi, (path, text) in enumerate(sources):
        ref = refs[fi]
        slots = ref.semis
        sf = semi_frags[fi]
        explicit_pos = set(s['pos'] for s in slots if s['kind'] != 'inserted')
        n_inserted = sum(1 for s in slots if s['kind'] == 'inserted')
        semi_tok = set(k.start for k in ref.tokens if k.text == ';' and k.type == 'punct')
        paired = len(sf) == len(slots) and 'ds' not in printer_name
        not_on_semicolon = 0
        for j, (idx, off) in enumerate(sf):
            if off is None or off in semi_tok:
                continue  # unmapped / implied, or really on a `;` of the source
            if paired and slots[j]['kind'] == 'inserted':
                continue  # supplied by automatic insertion: exempt
            if paired:
                acc.fail(None, case, {'bucket': 'semicolon_position', 'fragment': list(frags[idx][1])[:3],
                                      'offset': off, 'source_there': text[off:off + 8],
                                      'slot': slots[j]['kind']}, opens)
                return None
            not_on_semicolon += 1
        if not_on_semicolon > n_inserted:
            acc.fail(None, case, {'bucket': 'semicolon_position_count', 'not_on_semicolon': not_on_semicolon,
                                  'inserted_in_source': n_inserted}, opens)
            return None
    return explicit


def check(acc, opens, sources, printer_name, with_comments, origin, nested_at=None, via='assign'):
    sources = list(sources)
    case = {'sources': [list(s) for s in sources], 'printer': printer_name, 'with_comments': with_comments,
            'origin': origin, 'via': via}
    if origin == 'nested' or (isinstance(origin, str) and origin.startswith('nested')):
        case['nested_at'] = nested_at
        frags, refs = collect_nested(acc, opens, case, sources, printer_name, with_comments, nested_at or 0)
        if frags is None:
            return None
        return check_fragments(acc, opens, case, sources, frags, refs, printer_name + '_ds_nested')
    frags, refs = collect(acc, opens, case, sources, printer_name, with_comments, via)
    if frags is None:
        return None
    return check_fragments(acc, opens, case, sources, frags, refs, printer_name)


def replay(case, acc):
    check(acc, (), [tuple(s) for s in case['sources']], case['printer'], case.get('with_comments', False),
          case.get('origin', 'replay'), case.get('nested_at'), case.get('via', 'assign'))


PATHS = ['src/a.js', 'src/b.js', '/abs/lib/c.js']


def plan(tier, seed):
    from harness import refgate
    refgate.run(200 if tier == 'quick' else 2000)
    n = 2400 if tier == 'quick' else 120000
    shards = [{'name': 'g1-%d' % k, 'kind': 'g1', 'n': n // 16, 'hseed': seed * 1000 + k} for k in range(16)]
    shards.append({'name': 'corpus', 'kind': 'corpus'})
    return shards


def run_shard(shard):
    from harness.hyp import run_given
    acc = Acc()
    opens = shard['open_signatures']

    def one(texts, printer_name, wc, origin, nested_at=None, via='assign'):
        if len(texts) >= 2 and nested_at is not None and nested_at % 5 == 0:
            # two files with identical content are still two files
            texts = list(texts[:-1]) + [texts[0]]
        sources = [(PATHS[i], t) for i, t in enumerate(texts)]
        if nested_at is not None and len(texts) == 2:
            origin = 'nested'
            via = 'assign'
        else:
            nested_at = None
        n = check(acc, opens, sources, printer_name, wc, origin, nested_at, via)
        acc.label('via_' + via)
        if origin == 'nested':
            acc.label('nested_%s' % ('checked' if n else 'skipped'))
        lines = sum(positions.LineMap(t).nlines() for t in texts)
        acc.case((tuple(texts), printer_name, wc), bool(n) and n >= 12 and lines >= 3,
                 {'sources': texts, 'printer': printer_name, 'with_comments': wc, 'positioned_fragments': n})
        acc.label('printer_' + printer_name)
        acc.label('files_%d' % len(texts))
        if n:
            acc.extra['positioned_fragments_checked'] = acc.extra.get('positioned_fragments_checked', 0) + n
    if shard['kind'] == 'g1':
        prog = gen_program.program_strategy(layout_levels=(1, 2, 3, 3), max_fuel=5).map(lambda p: p['text'])
        strat = st.tuples(st.lists(prog, min_size=1, max_size=3), st.sampled_from(PRINTERS + ['obf_ds']),
                          st.booleans(), st.one_of(st.none(), st.integers(0, 500)), st.sampled_from(VIAS))
        run_given(strat, lambda x: one(x[0], x[1], x[2], 'g1', x[3], x[4]), shard['n'], shard['hseed'], acc)
    else:
        corpus = c03.load_corpus()
        for i, src in enumerate(corpus):
            for pn in PRINTERS:
                one([src], pn, i % 2 == 0, 'corpus')
            if i + 1 < len(corpus) and i % 5 == 0:
                one([src, corpus[i + 1]], PRINTERS[i % len(PRINTERS)], False, 'corpus', None, VIAS[(i // 5) % len(VIAS)])
    return acc.result()
