"""C10 - Base64-VLQ codec is a bijection in canonical Source Map V3 form."""
from harness.runner import Acc
from harness import ref_vlq

PROPERTY = 'C10'
LEVEL = 'exploration'
RULE = ('integers: exhaustive symmetric range (quick +-2^16, thorough +-2^20) + every raw value within '
        '+-2 of 32^k/2 for k<=80 and of +-2^k for k<=400 + Hypothesis unbounded integers, integer lists, mappings structures '
        '(>=1 line, segments of 1/4/5 and other lengths) and canonical VLQ strings built from the grammar; every line count and every list length from 1 to 4200 (thorough: 20000) with short lines, enumerated; '
        'oracles: decode(encode(x))==x at value/list/mappings level, encode(decode(s))==s for canonical s, '
        'and both directions against an independent reference codec (R4); a third of the cases run right after a call that failed part way (invalid element after valid ones, producer raising midway, malformed string); every decoded structure is modified by the caller afterwards (segments appended to each line, lines added) and decoded again, so that all later cases of the process run after such modifications; every list is also supplied as tuple / iterator / generator and every mappings structure as nested generators (the right string, or a TypeError from an encoder that insists on sequences). '
        'non-trivial = a case containing a value with |v|>=16 (multi-digit) or v<0; distinct by value/structure')
ASSUMPTIONS = ['R4 reference codec (harness/ref_vlq.py) is validated against worked examples at start']


def plan(tier, seed):
    ref_vlq.selftest()
    lim = 2 ** 16 if tier == 'quick' else 2 ** 20
    n = 16
    shards = []
    step = (2 * lim + 1 + n - 1) // n
    for i in range(n):
        lo = -lim + i * step
        hi = min(lim, lo + step - 1)
        shards.append({'name': 'range%d' % i, 'kind': 'range', 'lo': lo, 'hi': hi})
    shards.append({'name': 'bounds', 'kind': 'bounds'})
    # every line count / list length up to a bound (block-wise or chunked implementations fail at exact multiples)
    top = 4200 if tier == 'quick' else 20000
    for i in range(8):
        shards.append({'name': 'scale%d' % i, 'kind': 'scale', 'start': 1 + i, 'step': 8, 'top': top})
    total = 6000 if tier == 'quick' else 240000
    nh = 6 if tier == 'quick' else 16
    for k in range(nh):
        shards.append({'name': 'hyp%d' % k, 'kind': 'hyp', 'n': total // nh, 'hseed': seed * 1000 + k})
    return shards


def _nontrivial_vals(vals):
    return any(abs(v) >= 16 or v < 0 for v in vals)


def check_int(acc, vlq, i, opens):
    try:
        s = vlq.encode_vlq(i)
        r = ref_vlq.encode(i)
        if s != r:
            acc.fail('c10.encode_differs_from_reference', {'kind': 'int', 'value': str(i)},
                     {'calmjs': s, 'reference': r}, opens)
            return
        back = vlq.decode_vlq(s)
        if back != i or type(back) is not int:
            acc.fail('c10.roundtrip_value', {'kind': 'int', 'value': str(i)},
                     {'encoded': s, 'decoded': repr(back)}, opens)
            return
        if not ref_vlq.is_canonical_value(s):
            acc.fail('c10.noncanonical', {'kind': 'int', 'value': str(i)}, {'encoded': s}, opens)
    except Exception as e:
        acc.fail('c10.exception', {'kind': 'int', 'value': str(i)},
                 {'bucket': type(e).__name__, 'error': repr(e)}, opens)


def check_list(acc, vlq, ints, opens):
    case = {'kind': 'list', 'value': [str(i) for i in ints]}
    try:
        s = vlq.encode_vlqs(ints)
        if s != ''.join(ref_vlq.encode(i) for i in ints):
            acc.fail('c10.encode_differs_from_reference', case, {'calmjs': s}, opens)
            return
        back = vlq.decode_vlqs(s)
        if tuple(back) != tuple(ints):
            acc.fail('c10.roundtrip_list', case, {'encoded': s, 'decoded': repr(back)}, opens)
            return
        if list(ref_vlq.decode_all(s)) != list(ints):
            acc.fail('c10.reference_decodes_differently', case, {'encoded': s}, opens)
            return
    except Exception as e:
        acc.fail('c10.exception', case, {'bucket': type(e).__name__, 'error': repr(e)}, opens)
        return
    # the same values supplied in another kind (the encoder takes any iterable today): the right string, or a
    # TypeError from an encoder that insists on a sequence - never a string that stands for other values
    for kind, mk in SUPPLY:
        try:
            s2 = vlq.encode_vlqs(mk(ints))
        except TypeError:
            acc.label('supply_%s_refused' % kind)
            continue
        except Exception as e:
            acc.fail('c10.exception', dict(case, supplied_as=kind), {'bucket': type(e).__name__, 'error': repr(e)}, opens)
            return
        if s2 != s:
            acc.fail('c10.encode_depends_on_container', dict(case, supplied_as=kind), {'calmjs': s2, 'expected': s}, opens)
            return


def _gen(xs):
    for x in xs:
        yield x


SUPPLY = [('tuple', tuple), ('iter', iter), ('generator', _gen), ('reversed_twice', lambda xs: reversed(list(reversed(xs))))]
POLLUTED = [False]


def _mutate(back):
    """what a caller may do with a structure it was handed: it is the caller's"""
    POLLUTED[0] = True
    try:
        for line in back:
            line.append((4, 0, 0, 4))
        back.append([(9,)])
        back.insert(0, [])
    except (AttributeError, TypeError):
        pass


def pollute(vlq):
    for s in (';;', 'AAAA;;A', '', 'A', ';'):
        try:
            _mutate(vlq.decode_mappings(s))
        except Exception:
            pass


def check_mappings(acc, vlq, m, opens):
    case = {'kind': 'mappings', 'value': [[[str(i) for i in seg] for seg in line] for line in m]}
    if POLLUTED[0]:
        case['after_mutated_result'] = True
    try:
        s = vlq.encode_mappings(m)
        ref = ';'.join(','.join(''.join(ref_vlq.encode(i) for i in seg) for seg in line) for line in m)
        if s != ref:
            acc.fail('c10.encode_differs_from_reference', case, {'calmjs': s, 'reference': ref}, opens)
            return
        back = vlq.decode_mappings(s)
        norm = [[tuple(seg) for seg in line] for line in back]
        if norm != [[tuple(seg) for seg in line] for line in m]:
            acc.fail('c10.roundtrip_mappings', case, {'encoded': s, 'decoded': repr(back)}, opens)
            return
        if vlq.encode_mappings(back) != s:
            acc.fail('c10.reencode_mappings', case, {'encoded': s}, opens)
            return
        # lines and segments supplied lazily (soft oracle as in check_list)
        try:
            s3 = vlq.encode_mappings(_gen([_gen([_gen(seg) for seg in line]) for line in m]))
        except TypeError:
            acc.label('supply_lazy_mappings_refused')
        else:
            if s3 != s:
                acc.fail('c10.encode_depends_on_container', dict(case, supplied_as='generators'),
                         {'calmjs': s3, 'expected': s}, opens)
                return
        # a second decode is a structure of its own, whatever the caller did to the first
        _mutate(back)
        again = vlq.decode_mappings(s)
        if [[tuple(seg) for seg in line] for line in again] != [[tuple(seg) for seg in line] for line in m]:
            acc.fail('c10.decoded_structures_share_state', dict(case, after_mutated_result=True),
                     {'encoded': s, 'decoded_again': repr(again)[:300]}, opens)
            return
        _mutate(again)
    except Exception as e:
        acc.fail('c10.exception', case, {'bucket': type(e).__name__, 'error': repr(e)}, opens)


def check_string(acc, vlq, s, opens):
    """s is a concatenation of canonical values"""
    case = {'kind': 'string', 'value': s}
    try:
        vals = vlq.decode_vlqs(s)
        if list(vals) != ref_vlq.decode_all(s):
            acc.fail('c10.decode_differs_from_reference', case,
                     {'calmjs': repr(vals), 'reference': repr(ref_vlq.decode_all(s))}, opens)
            return
        if vlq.encode_vlqs(vals) != s:
            acc.fail('c10.roundtrip_string', case, {'decoded': repr(vals),
                                                    'reencoded': vlq.encode_vlqs(vals)}, opens)
            return
        if vals and vlq.decode_vlq(s) != vals[0]:
            acc.fail('c10.decode_first', case, {}, opens)
    except Exception as e:
        acc.fail('c10.exception', case, {'bucket': type(e).__name__, 'error': repr(e)}, opens)


def _raising():
    yield 3
    yield -7
    raise ValueError('producer fails midway')


FAULTS = [
    lambda vlq: vlq.encode_vlqs([1, None]),
    lambda vlq: vlq.encode_vlqs(_raising()),
    lambda vlq: vlq.encode_vlqs([5, 1000, 'x', 2]),
    lambda vlq: vlq.encode_mappings([[(1, 2, 3, 4)], [(0, 'x')]]),
    lambda vlq: vlq.encode_vlq('a'),
    lambda vlq: vlq.decode_vlqs('AC!!'),
    lambda vlq: vlq.decode_vlq('gg'),
    lambda vlq: vlq.decode_mappings('AAAA,%;g'),
    lambda vlq: vlq.decode_vlqs(None),
]


def inject(vlq, fault):
    """a call that fails part way (invalid element after valid ones, producer raising, malformed string);
    whatever it raises is the caller's business - the calls that follow must be unaffected"""
    if fault is None:
        return
    try:
        FAULTS[fault](vlq)
    except Exception:
        pass


def replay(case, acc):
    from calmjs.parse import vlq
    inject(vlq, case.get('after_failed_call'))
    if case.get('after_mutated_result'):
        pollute(vlq)
    k = case['kind']
    if k == 'int':
        check_int(acc, vlq, int(case['value']), ())
    elif k == 'list':
        check_list(acc, vlq, [int(x) for x in case['value']], ())
    elif k == 'mappings':
        check_mappings(acc, vlq, [[tuple(int(x) for x in seg) for seg in line]
                                  for line in case['value']], ())
    elif k == 'string':
        check_string(acc, vlq, case['value'], ())


def boundaries():
    out = set()
    for k in range(0, 81):
        raw = 32 ** k
        for d in (-2, -1, 0, 1, 2):
            r = raw + d
            if r >= 0:
                out.add(r >> 1 if not (r & 1) else -(r >> 1))
                out.add(r)
                out.add(-r)
        # 16 * 32^k: smallest value needing k+2 digits
        for d in (-1, 0, 1):
            out.add(16 * raw + d)
            out.add(-(16 * raw + d))
    # machine-word boundaries: every power of two (the 32- and 64-bit limits of other implementations and of
    # later editions of the format are among them) with its neighbours, both signs
    for k in range(0, 401):
        for d in (-2, -1, 0, 1, 2):
            out.add(2 ** k + d)
            out.add(-(2 ** k + d))
    return sorted(out)


def run_shard(shard):
    from calmjs.parse import vlq
    acc = Acc()
    opens = shard['open_signatures']
    kind = shard['kind']
    if kind == 'range':
        for i in range(shard['lo'], shard['hi'] + 1):
            check_int(acc, vlq, i, opens)
            nt = abs(i) >= 16 or i < 0
            acc.evaluations += 1
            if nt:
                acc.nontrivial.add(i)  # ints are their own distinct key
        acc.samples = [{'int': shard['lo'], 'encoded': vlq.encode_vlq(shard['lo'])}]
        acc.extra['exhaustive_range'] = [[shard['lo'], shard['hi']]]
        acc.label('range_values', shard['hi'] - shard['lo'] + 1)
    elif kind == 'bounds':
        for i in boundaries():
            check_int(acc, vlq, i, opens)
            acc.case(('b', i), True, {'int': str(i), 'encoded': vlq.encode_vlq(i)} if abs(i) > 2 ** 200 else None)
            acc.label('boundary_bits_%d' % (50 * (i.bit_length() // 50)))
    elif kind == 'scale':
        # structure sizes, enumerated: n lines (some empty, most with one or two short segments) and lists of n values
        pats = [[], [(0,)], [(1, 0, 0, 0)], [(-3,), (2, 0, 1, -1, 0)], [(17, 0, -20, 33)]]
        for n in range(shard['start'], shard['top'] + 1, shard['step']):
            m = [pats[(j * 7 + n) % len(pats)] for j in range(n)]
            if not m[-1] and n % 3:
                m[-1] = [(n % 50 - 25,)]
            check_mappings(acc, vlq, m, opens)
            check_list(acc, vlq, [((j * 37 + n) % 101) - 50 for j in range(n)], opens)
            acc.evaluations += 1
            acc.nontrivial.add(('scale', n))
            acc.label('scale_lines_%dk' % (n // 1000))
        acc.extra['exhaustive_sizes'] = [[1, shard['top']]]
    elif kind == 'hyp':
        from hypothesis import strategies as st
        from harness.hyp import run_given
        ints = st.one_of(st.integers(), st.integers(-40, 40), st.integers(-2 ** 12, 2 ** 12),
                         st.builds(lambda k, d, s: s * (32 ** k // 2 + d), st.integers(0, 80),
                                   st.integers(-2, 2), st.sampled_from([-1, 1])),
                         st.builds(lambda k, d, s: s * (2 ** k + d), st.integers(0, 130),
                                   st.integers(-2, 2), st.sampled_from([-1, 1])))
        seg = st.one_of(st.lists(ints, min_size=1, max_size=1), st.lists(ints, min_size=4, max_size=4),
                        st.lists(ints, min_size=5, max_size=5), st.lists(ints, min_size=1, max_size=7))
        mappings = st.lists(st.lists(seg.map(tuple), max_size=5), min_size=1, max_size=6)
        cont = st.sampled_from(ref_vlq.ALPHA[32:])
        term = st.sampled_from(ref_vlq.ALPHA[:32])
        canon_val = st.builds(lambda cs, t: ''.join(cs) + t, st.lists(cont, max_size=12), term).filter(
            ref_vlq.is_canonical_value)
        canon_str = st.lists(canon_val, min_size=1, max_size=8).map(''.join)
        case = st.one_of(st.tuples(st.just('int'), ints), st.tuples(st.just('list'), st.lists(ints, max_size=12)),
                         st.tuples(st.just('mappings'), mappings), st.tuples(st.just('string'), canon_str))

        def body(xf):
            x, fault = xf
            k, v = x
            acc.label('kind_' + k)
            if fault is not None:
                acc.label('after_failed_call')
                inject(vlq, fault)
                before = len(acc.failures)
            if k == 'int':
                check_int(acc, vlq, v, opens)
                acc.case(('i', v), _nontrivial_vals([v]), {'int': str(v), 'encoded': vlq.encode_vlq(v)})
            elif k == 'list':
                check_list(acc, vlq, v, opens)
                acc.case(('l', tuple(v)), _nontrivial_vals(v), {'list': [str(i) for i in v],
                                                               'encoded': vlq.encode_vlqs(v)})
            elif k == 'mappings':
                check_mappings(acc, vlq, v, opens)
                flat = [i for line in v for s_ in line for i in s_]
                acc.case(('m', repr(v)), _nontrivial_vals(flat), {'mappings': vlq.encode_mappings(v)})
                acc.label('mapping_lines_%d' % len(v))
            else:
                check_string(acc, vlq, v, opens)
                acc.case(('s', v), len(v) > 1, {'canonical_string': v})
            if fault is not None:
                for f in acc.failures[before:]:
                    f['case']['after_failed_call'] = fault
        run_given(st.tuples(case, st.one_of(st.none(), st.none(), st.integers(0, len(FAULTS) - 1))), body,
                  shard['n'], shard['hseed'], acc)
    return acc.result()


def finish(m, cov, tier):
    rs = sorted(m['extra'].get('exhaustive_range', []))
    if rs:
        cov['exhaustive'] = True
        cov['exhaustive_part'] = 'every integer in [%d, %d]' % (rs[0][0], rs[-1][1])
    sz = m['extra'].get('exhaustive_sizes', [])
    if sz and rs:
        cov['exhaustive_part'] += '; every mappings line count and list length in [1, %d]' % max(b for a, b in sz)
