"""C11 - every AST node position is self-consistent and lies on its own token."""
from hypothesis import strategies as st

from harness.runner import Acc
from harness import pdiff, canon, gen_program, ref_es5, positions, unparse
from props import c03

PROPERTY = 'C11'
LEVEL = 'exploration'
RULE = ('G1 programs under hostile layout (multi-line strings and comments, LF/CR/CRLF/U+2028/U+2029 breaks, tabs and '
        'exotic white space, comments holding text that is not in normalisation form C) and repository snippets, parsed with and without comment capture. The calmjs tree and '
        'the reference tree (structurally identical, else the case belongs to C03 and is skipped) are walked in '
        'parallel. For every node: (1) (lineno, colno) == reference line/column of lexpos; (2) lexpos is the start of '
        'the node\'s first token, or - for binary, assignment, conditional, comma, postfix, accessor, property-'
        'assignment and label forms - of its operator token, and lies inside the node\'s extent (placeholders for '
        'omitted for(;;) clauses exempt from 2); (3) every literal-token table entry agrees with the reference '
        'line/column and an reference token with exactly that text starts there (comma run: a comma), except the '
        '`;` entry of a statement whose terminator the reference marks as inserted; (4) every comment node attached under comment capture satisfies (1) and records the text found at its offset. non-trivial = source spans >= 3 '
        'lines with >= 2 terminator kinds or a multi-line token, and contains a node kind with special-cased '
        'position (for clauses, elision, property identifier, var initialiser, new, accessor); distinct by text')
ASSUMPTIONS = c03.ASSUMPTIONS + ['reference position arithmetic harness/positions.py']

OP_KINDS = frozenset(['Binary', 'Assign', 'Cond', 'Comma', 'Postfix', 'Dot', 'Index', 'Init', 'Label'])
TERMINATED = frozenset(['Var', 'Expr', 'DoWhile', 'Continue', 'Break', 'Return', 'Throw', 'Debugger'])
SPECIAL = frozenset(['For', 'Elision', 'PropIdent', 'VarDecl', 'New', 'Getter', 'Setter'])


def pairs(cn, n):
    """parallel pre-order walk of a canon.CN tree and a ref_es5.N tree -> (cn, n)"""
    if cn is None or n is None or isinstance(cn, str):
        return
    if isinstance(cn, list):
        for a, b in zip(cn, n):
            for x in pairs(a, b):
                yield x
        return
    if n.kind == 'Paren':
        while isinstance(n.fields[0], ref_es5.N) and n.fields[0].kind == 'Paren':
            n = n.fields[0]
    yield cn, n
    for a, b in zip(cn.fields, n.fields):
        for x in pairs(a, b):
            yield x


def check_tree(acc, opens, case, text, tree, ref):
    lm = positions.LineMap(text)
    tok_at = {}
    for k in ref.tokens:
        tok_at[k.start] = k
    inserted = set(s['pos'] for s in ref.semis if s['kind'] == 'inserted')
    try:
        cn = canon.to_cn(tree)
    except canon.CanonError as e:
        acc.fail(None, case, {'bucket': 'canon_error', 'error': str(e)}, opens)
        return None
    kinds = set()
    count = 0

    def consistent(node, what):
        lp, ln, cl = node.lexpos, node.lineno, node.colno
        if lp is None or ln is None or cl is None:
            return '%s has no position' % what
        if not (0 <= lp <= len(text)):
            return '%s lexpos %r outside the text' % (what, lp)
        if (ln, cl) != lm.linecol(lp):
            return '%s reports %d:%d at offset %d, reference says %d:%d' % ((what, ln, cl, lp) + lm.linecol(lp))
        return None

    def token_table(node, what, rn):
        tm = getattr(node, '_token_map', None) or {}
        for txt, entries in tm.items():
            for (lp, ln, cl) in entries:
                if txt == ';' and rn is not None and rn.kind in TERMINATED and \
                        not (0 <= rn.last < len(ref.tokens) and ref.tokens[rn.last].text == ';'
                             and ref.tokens[rn.last].type == 'punct'):
                    continue  # semicolon supplied by automatic insertion: no source counterpart
                if ln == 0 and cl == 0 and lp == 0 and txt != text[:len(txt)]:
                    return '%s token table has the implied/absent position for %r' % (what, txt)
                if not (0 <= lp <= len(text)) or (ln, cl) != lm.linecol(lp):
                    return '%s token %r recorded at offset %r as %r:%r, reference %r' % (
                        what, txt, lp, ln, cl, lm.linecol(lp) if 0 <= lp <= len(text) else None)
                want = ',' if (txt and set(txt) == {','}) else txt
                k = tok_at.get(lp)
                if k is None or k.text != want:
                    return '%s token %r recorded at offset %d where the source has %r' % (
                        what, txt, lp, k.text if k else text[lp:lp + 6])
        return None

    for c, n in pairs(cn, ref.root):
        node = c.src
        kind = c.kind
        kinds.add(kind)
        count += 1
        what = '%s(%s)' % (type(node).__name__, kind)
        if kind == 'Program' and not ref.tokens:
            continue  # an empty program has no token to point at
        bad = consistent(node, what)
        if not bad:
            first = ref.tokens[n.first].start if n.first < len(ref.tokens) else len(text)
            last_end = ref.tokens[n.last].end if 0 <= n.last < len(ref.tokens) else len(text)
            allowed = {first}
            if kind in OP_KINDS and n.op is not None:
                allowed.add(ref.tokens[n.op].start)
            if kind == 'Program' and not ref.tokens:
                allowed = {node.lexpos}
            if kind == 'Program' and n.first >= len(ref.tokens):
                allowed = {node.lexpos}
            if node.lexpos not in allowed and n.last >= n.first:
                bad = '%s lexpos %d is not the start of its first token (%d)%s; extent %d..%d' % (
                    what, node.lexpos, first,
                    ' nor of its operator (%d)' % ref.tokens[n.op].start if (kind in OP_KINDS and n.op is not None) else '',
                    first, last_end)
        if not bad:
            bad = token_table(node, what, n)
        # calmjs nodes folded into this one (for-clause wrappers, case block)
        if not bad and c.extra:
            for w in c.extra:
                if w is None:
                    continue
                wname = type(w).__name__
                bad = consistent(w, '%s wrapper of %s' % (wname, kind))
                if bad:
                    break
                first = ref.tokens[n.first].start
                last_end = ref.tokens[n.last].end
                if wname != 'EmptyStatement' and not (first <= w.lexpos < last_end):
                    bad = '%s wrapper position %d outside the extent %d..%d of its %s' % (
                        wname, w.lexpos, first, last_end, kind)
                    break
                if wname != 'EmptyStatement':
                    bad = token_table(w, '%s wrapper' % wname, n)
                    if bad:
                        break
        if bad:
            acc.fail(classify(bad), case, {'bucket': 'position:' + kind, 'why': bad}, opens)
            return None
    # comment nodes attached by comment capture are nodes of the returned tree as well
    from calmjs.parse.walkers import Walker
    for n in [tree] + list(Walker().walk(tree)):
        cs = getattr(n, 'comments', None)
        if cs is None:
            continue
        for c in cs.children():
            bad = consistent(c, '%s of %s' % (type(c).__name__, type(n).__name__))
            if not bad and text[c.lexpos:c.lexpos + len(c.value)] != c.value:
                bad = '%s %r recorded at offset %d where the text reads %r' % (
                    type(c).__name__, c.value[:30], c.lexpos, text[c.lexpos:c.lexpos + len(c.value)][:30])
            if bad:
                acc.fail(None, case, {'bucket': 'position:Comment', 'why': bad}, opens)
                return None
            kinds.add('Comment')
    return kinds, count


def classify(bad):
    return None


def check(acc, opens, src, with_comments, origin):
    tree, ref = unparse.source_in_domain(acc, src, with_comments=with_comments)
    if tree is None:
        return None
    case = {'text': src, 'with_comments': with_comments, 'origin': origin}
    return check_tree(acc, opens, case, src, tree, ref)


def replay(case, acc):
    check(acc, (), case['text'], case.get('with_comments', False), case.get('origin', 'replay'))


from harness.shrink import text_shrinker  # noqa: E402
shrink = text_shrinker(replay, 'text')



def nontrivial(text, kinds):
    lm = positions.LineMap(text)
    if lm.nlines() < 3:
        return False
    rest = text.replace('\r\n', '')
    lts = sum(1 for c in ('\n', '\r', chr(0x2028), chr(0x2029)) if c in rest) + (1 if '\r\n' in text else 0)
    multiline = '\\\n' in text or '\\\r' in text or '/*' in text
    return (lts >= 2 or multiline) and bool(kinds & SPECIAL)


def plan(tier, seed):
    from harness import refgate
    refgate.run(200 if tier == 'quick' else 2000)
    n = 3200 if tier == 'quick' else 120000
    shards = [{'name': 'g1-%d' % k, 'kind': 'g1', 'n': n // 16, 'hseed': seed * 1000 + k} for k in range(16)]
    shards.append({'name': 'corpus', 'kind': 'corpus'})
    return shards


def run_shard(shard):
    from harness.hyp import run_given
    acc = Acc()
    opens = shard['open_signatures']

    def one(src, wc, origin):
        res = check(acc, opens, src, wc, origin)
        kinds = res[0] if res else set()
        acc.case((src, wc), bool(res) and nontrivial(src, kinds), {'text': src, 'with_comments': wc})
        for k in kinds:
            acc.label('kind_' + k)
        if res:
            acc.extra['nodes_checked'] = acc.extra.get('nodes_checked', 0) + res[1]
    if shard['kind'] == 'g1':
        strat = st.tuples(gen_program.program_strategy(layout_levels=(2, 3, 3)), st.booleans())
        run_given(strat, lambda x: one(x[0]['text'], x[1], 'g1'), shard['n'], shard['hseed'], acc)
    else:
        for src in c03.load_corpus():
            for wc in (False, True):
                one(src, wc, 'corpus')
    return acc.result()
