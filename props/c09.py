"""C09 - the source map decodes to exactly the positions the fragments carried."""
import json
from io import StringIO

from hypothesis import strategies as st

from harness.runner import Acc
from harness import gen_program, ref_sourcemap, ref_vlq
from props import c03, c08

PROPERTY = 'C09'
LEVEL = 'exploration'
RULE = ('(i) real fragment streams: everything C08 generates (1-3 chained source files, five printer configurations, '
        'comment capture on/off), written through sourcemap.write and encode_sourcemap; (ii) synthetic streams: lists '
        'of fragments whose text may contain LF/CR/CRLF anywhere, position in {none, implied (0,0), explicit '
        '(>=1,>=1)}, optional original name (also one equal to the text written, which is not judged itself), source in {None, three paths, NotImplemented}, well-formed as the write '
        'docstring defines (the first positioned fragment names its source), written in one call or (normalize off) split over up to four calls that share book, sources, names and mappings as documented; both x normalize in {True, False}. '
        'Oracle: the harness tracks the generated (line, column) at which each fragment is written; the encoded map '
        'is decoded by an independent Source Map V3 decoder (R3); every explicit fragment must decode - exact '
        'segment (normalize off) or greatest segment <= column with linear extrapolation (normalize on) - to its '
        'effective source, line-1, column-1, and to its name on a segment starting at its own column; all indexes '
        'in range, columns non-decreasing, segments of 1/4/5 fields, canonical VLQ, names without duplicates, mapping '
        'lines == output lines split on LF|CR|CRLF. non-trivial = >= 2 output lines, a renamed fragment, an '
        'implied fragment after an explicit one; distinct by stream')
ASSUMPTIONS = ['R3 decoder harness/ref_sourcemap.py and R4 codec harness/ref_vlq.py, validated on hand-worked examples '
               'at the start of each run',
               'whether real fragments name the right file is C08\'s question; a stream whose first positioned fragment '
               'names no source (none is produced since ab060f0) is not judged on the source field']

INVALID = 'about:invalid'


def gen_positions(frags):
    """(line, col) 0-based at which each fragment text starts in the concatenated output"""
    out = []
    line = col = 0
    for f in frags:
        out.append((line, col))
        t = f[0]
        i = 0
        n = len(t)
        while i < n:
            c = t[i]
            if c == '\r' and i + 1 < n and t[i + 1] == '\n':
                line += 1
                col = 0
                i += 2
            elif c in '\r\n':
                line += 1
                col = 0
                i += 1
            else:
                col += 1
                i += 1
    return out, line + 1


def effective_sources(frags):
    """docstring rule of sourcemap.write"""
    out = []
    prev = None
    seen_any = False
    for f in frags:
        s = f[4]
        if f[0] == '':
            # nothing is written for an empty fragment and sourcemap.write does not look at it
            out.append(prev if seen_any else INVALID)
            continue
        if s is None:
            eff = prev if seen_any else INVALID
        elif s is NotImplemented:
            eff = INVALID
            prev = eff
            seen_any = True
        else:
            eff = s
            prev = eff
            seen_any = True
        out.append(eff)
    return out


def check_stream(acc, opens, case, frags, normalize, judge_source=True, cuts=None):
    from calmjs.parse import sourcemap
    stream = StringIO()
    try:
        if cuts and not normalize:
            # the documented multi-call form: the fragments arrive in several calls that share the
            # book, the sources and names trackers and the mappings (normalisation is not supported there)
            book, srcs, nms, mappings = sourcemap.default_book(), sourcemap.Names(), sourcemap.Names(), None
            bounds = [0] + sorted(cuts) + [len(frags)]
            for a, b in zip(bounds, bounds[1:]):
                mappings, sources, names = sourcemap.write(iter(frags[a:b]), stream, normalize=False, book=book,
                                                           sources=srcs, names=nms, mappings=mappings)
        else:
            mappings, sources, names = sourcemap.write(iter(frags), stream, normalize=normalize)
        sm = sourcemap.encode_sourcemap('out.js', mappings, sources, names)
        sm = json.loads(json.dumps(sm))
    except Exception as e:
        acc.fail(None, case, {'bucket': 'write_raises:' + type(e).__name__, 'error': repr(e)[:300]}, opens)
        return None
    text = stream.getvalue()
    if text != ''.join(f[0] for f in frags):
        acc.fail(None, case, {'bucket': 'stream_text_differs'}, opens)
        return None
    try:
        lines = ref_sourcemap.decode(sm)
    except ref_sourcemap.MapError as e:
        acc.fail(None, case, {'bucket': 'map_malformed:' + str(e)[:30], 'error': str(e),
                              'mappings': sm.get('mappings')}, opens)
        return None
    if len(set(sm['names'])) != len(sm['names']):
        acc.fail(None, case, {'bucket': 'duplicate_names', 'names': sm['names']}, opens)
        return None
    gpos, nlines = gen_positions(frags)
    if len(lines) != nlines:
        acc.fail(None, case, {'bucket': 'mapping_line_count', 'mapping_lines': len(lines), 'output_lines': nlines,
                              'mappings': sm['mappings']}, opens)
        return None
    eff = effective_sources(frags)
    judged = 0
    for i, f in enumerate(frags):
        text_, line, col, name, source = f
        if not (isinstance(line, int) and isinstance(col, int) and line > 0 and col > 0):
            continue
        if text_ == '':
            continue  # nothing is written for an empty fragment
        gl, gc = gpos[i]
        if normalize:
            seg = ref_sourcemap.lookup(lines, gl, gc)
        else:
            cands = ref_sourcemap.exact(lines, gl, gc)
            # several fragments can start at one column only if earlier ones were empty; take the last
            seg = cands[-1] if cands else None
        what = {'fragment': [text_, line, col, name, repr(source)], 'generated': [gl, gc],
                'mappings': sm['mappings'], 'sources': sm['sources'], 'names': sm['names']}
        if seg is None or seg[1] is None:
            acc.fail(None, case, dict(what, bucket='fragment_unmapped', segment=seg), opens)
            return None
        scol = seg[3] + (gc - seg[0])
        if seg[2] != line - 1 or scol != col - 1:
            acc.fail(None, case, dict(what, bucket='position_differs', segment=list(seg),
                                      decoded=[seg[2] + 1, scol + 1]), opens)
            return None
        if judge_source and sm['sources'][seg[1]] != eff[i]:
            acc.fail(None, case, dict(what, bucket='source_differs', segment=list(seg),
                                      decoded_source=sm['sources'][seg[1]], expected=eff[i]), opens)
            return None
        if name is not None and name != text_:
            ex = [s for s in ref_sourcemap.exact(lines, gl, gc) if s[4] is not None]
            if not ex or sm['names'][ex[-1][4]] != name:
                acc.fail(None, case, dict(what, bucket='name_differs', segments=[list(s) for s in ex]), opens)
                return None
        judged += 1
    return {'judged': judged, 'lines': nlines}


# ---------------------------------------------------------------------------
# synthetic streams

SRC_CHOICES = [None, None, 'a.js', 'lib/b.js', '/abs/c.js', NotImplemented]
TEXTS = ['a', 'foo', ';', '{', '}', ' ', '  ', '\n', '\r\n', '\r', 'x\n', 'x\ny', '"a\\\nb"', '/*c\n d*/', ',', '(',
         ')', 'var', 'function', '\n  ', 'a\r\nb\rc', '', 'a\x0cb', '"x\x0by"', u'/*\x85*/ ', 'p\x1cq\nr\x0c', u'"\U0001f600"', u'\U00020000x', u'a\U0001d4b3\nb\U0001f600']


@st.composite
def synthetic(draw):
    n = draw(st.integers(1, 14))
    frags = []
    line, col = 1, 1
    have_explicit_source = False
    for i in range(n):
        text = draw(st.sampled_from(TEXTS))
        kind = draw(st.sampled_from(['none', 'implied', 'explicit', 'explicit', 'explicit']))
        source = draw(st.sampled_from(SRC_CHOICES))
        if text == '' and not have_explicit_source:
            frags.append((text, None, None, None, None))
            continue
        if not have_explicit_source and kind != 'none':
            # well-formed: the first positioned fragment names its source
            kind = 'explicit'
            if source is None or source is NotImplemented:
                source = 'a.js'
        if kind == 'none':
            frags.append((text, None, None, None, None))
            continue
        name = None
        if kind == 'explicit':
            # deltas around the digit boundaries of the VLQ encoding (16, 32, 64, 512, 1024) in both directions
            line = draw(st.one_of(st.integers(1, 40), st.sampled_from([1, 17, 33, 65, 129, 513, 1025, 2000])))
            col = draw(st.one_of(st.integers(1, 60), st.sampled_from([1, 2, 17, 33, 65, 66, 129, 513, 1025, 4097])))
            if draw(st.integers(0, 3)) == 0:
                name = draw(st.sampled_from(['orig', 'longOriginalName', 'x', 'orig', 'console', 'second', 'third']))
                if text.isalnum() and draw(st.integers(0, 3)) == 0:
                    # an original name equal to the text written (nothing was renamed): the writer may or may not
                    # spend a name on it, the names of the fragments after it are judged all the same
                    name = text
            frags.append((text, line, col, name, source))
        else:
            frags.append((text, 0, 0, None, source if source is not NotImplemented else None))
        if source is not None and source is not NotImplemented:
            have_explicit_source = True
        elif kind != 'none' and source is NotImplemented:
            have_explicit_source = True
    return frags


def jsonable(frags):
    return [[f[0], f[1], f[2], f[3], ('<NotImplemented>' if f[4] is NotImplemented else f[4])] for f in frags]


def from_json(lst):
    return [(f[0], f[1], f[2], f[3], (NotImplemented if f[4] == '<NotImplemented>' else f[4])) for f in lst]


def replay(case, acc):
    if case.get('kind') == 'synthetic':
        check_stream(acc, (), case, from_json(case['fragments']), case['normalize'], cuts=case.get('cuts'))
    else:
        sources = [tuple(s) for s in case['sources']]
        frags, refs = c08.collect(acc, (), case, sources, case['printer'], case.get('with_comments', False))
        if frags is not None:
            fr = [tuple(f) for _, f in frags]
            check_stream(acc, (), case, fr, case['normalize'], judge_source=_source_well_defined(fr))


def _source_well_defined(frags):
    for f in frags:
        if isinstance(f[1], int) and isinstance(f[2], int) and f[1] > 0 and f[2] > 0:
            return f[4] is not None
    return True


def plan(tier, seed):
    ref_sourcemap.selftest()
    ref_vlq.selftest()
    quick = tier == 'quick'
    n_syn, n_real = (4800, 800) if quick else (240000, 24000)
    shards = []
    for k in range(16):
        shards.append({'name': 'syn-%d' % k, 'kind': 'syn', 'n': n_syn // 16, 'hseed': seed * 1000 + k})
        shards.append({'name': 'real-%d' % k, 'kind': 'real', 'n': n_real // 16, 'hseed': seed * 1000 + 100 + k})
    shards.append({'name': 'corpus', 'kind': 'corpus'})
    return shards


def nontrivial(frags, res):
    if not res or res['lines'] < 2:
        return False
    renamed = any(f[3] is not None for f in frags)
    implied_after = False
    seen = False
    for f in frags:
        if isinstance(f[1], int) and f[1] > 0:
            seen = True
        elif f[1] == 0 and seen:
            implied_after = True
    return renamed and implied_after


def run_shard(shard):
    from harness.hyp import run_given
    acc = Acc()
    opens = shard['open_signatures']
    if shard['kind'] == 'syn':
        def body(x):
            frags, normalize, cuts = x
            cuts = sorted(set(c % (len(frags) + 1) for c in cuts)) if not normalize else []
            case = {'kind': 'synthetic', 'fragments': jsonable(frags), 'normalize': normalize, 'cuts': cuts}
            res = check_stream(acc, opens, case, frags, normalize, cuts=cuts)
            if cuts:
                acc.label('syn_multi_call_%d' % (len(cuts) + 1))
            acc.case((repr(frags), normalize), nontrivial(frags, res),
                     {'fragments': jsonable(frags), 'normalize': normalize})
            acc.label('syn_normalize_%s' % normalize)
            if res:
                acc.extra['fragments_judged'] = acc.extra.get('fragments_judged', 0) + res['judged']
        run_given(st.tuples(synthetic(), st.booleans(), st.one_of(st.just([]), st.lists(st.integers(0, 14), max_size=3))),
                  body, shard['n'], shard['hseed'], acc)
    else:
        def real(texts, printer_name, wc, normalize, origin):
            sources = [(c08.PATHS[i], t) for i, t in enumerate(texts)]
            case = {'kind': 'real', 'sources': [list(s) for s in sources], 'printer': printer_name,
                    'with_comments': wc, 'normalize': normalize, 'origin': origin}
            frags, refs = c08.collect(acc, opens, case, sources, printer_name, wc)
            if frags is None:
                acc.case((tuple(texts), printer_name, wc, normalize), False)
                return
            fr = [tuple(f) for _, f in frags]
            wd = _source_well_defined(fr)
            if not wd:
                acc.excluded['first_positioned_fragment_names_no_source'] += 1
            res = check_stream(acc, opens, case, fr, normalize, judge_source=wd)
            acc.case((tuple(texts), printer_name, wc, normalize), nontrivial(fr, res),
                     {'sources': texts, 'printer': printer_name, 'normalize': normalize})
            acc.label('real_%s_normalize_%s' % (printer_name, normalize))
            acc.label('real_files_%d' % len(texts))
            if res:
                acc.extra['fragments_judged'] = acc.extra.get('fragments_judged', 0) + res['judged']
        if shard['kind'] == 'real':
            prog = gen_program.program_strategy(layout_levels=(1, 2, 3), max_fuel=5).map(lambda p: p['text'])
            strat = st.tuples(st.lists(prog, min_size=1, max_size=3), st.sampled_from(c08.PRINTERS), st.booleans(),
                              st.booleans())
            run_given(strat, lambda x: real(x[0], x[1], x[2], x[3], 'g1'), shard['n'], shard['hseed'], acc)
        else:
            corpus = c03.load_corpus()
            for i, src in enumerate(corpus):
                pn = c08.PRINTERS[i % len(c08.PRINTERS)]
                for normalize in (True, False):
                    real([src], pn, False, normalize, 'corpus')
    return acc.result()
