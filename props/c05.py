"""C05 - every `/` is read as division or regex start as the grammar dictates."""
from hypothesis import strategies as st

from harness.runner import Acc
from harness import gen_program, ref_es5
from props import c03

PROPERTY = 'C05'
LEVEL = 'exploration'
RULE = ('(i) slash-context product, enumerated: nesting context (top level, inside function bodies within open parentheses/brackets/object literals, blocks, loop bodies, switch, try) x preceding construct (header parens of if/for/for-in/while/with/'
        'do-while, call/grouping/parameter parens, every kind of closing brace, `]`, identifiers, literals, this/null/'
        'true/false, keyword operators and statement keywords, reserved words as property names (also with white space, line breaks or comments between the dot and the name), prefix and postfix '
        '++/--, every punctuator after which an operand is expected) x layout (nothing, space, tab, NBSP, LF, block '
        'comment, line comment, multi-line comment, comment between spaces) x continuation (`/ 2 / 1`, '
        '`/re/.test(x)`, `/re/g`, `/=/.x`, `/= 2`); (ii) G1 programs with weights shifted to `/`, `/=` and regex '
        'literals. Oracle: R1 lexes with the goal symbol supplied by its parser (InputElementDiv/RegExp); acceptance '
        'and tree (which spells every regex literal and `/`, `/=` operator) must be equal. non-trivial = the case '
        'contains a slash whose class differs from the naive previous-token rule, or a comment/line break adjacent '
        'to a slash; distinct by text')
ASSUMPTIONS = c03.ASSUMPTIONS

TEMPLATES = [
    # a statement (hence possibly a regex) follows
    'if (a) @;', 'if (a) b; else @;', 'for (;;) @;', 'for (i = 0; i < n; i++) @;', 'for (x in y) @;',
    'for (var x in y) @;', 'while (a) @;', 'with (a) @;', 'do @; while (b);', 'do x; while (a) @;',
    '{ @; }', '{ x; } @;', '{ } @;', 'function f(){} @;', 'function f(){ return 1; } @;',
    'try {} catch (e) {} @;', 'try {} finally {} @;', 'switch (a) {} @;', 'L: @;', '; @;', 'x; @;',
    'switch (a) { case @: break; }', 'switch (a) { case 1: @; }', 'switch (a) { default: @; }',
    'if (a) {} else {} @;', 'while (a) {} @;', 'if (f(a)) @;', 'if ((a)) @;', 'while (a[0]) @;',
    # an operand (hence a regex) follows
    'function f(){ return @; }', 'throw @;', 'typeof @;', 'void @;', 'delete @;', 'new @;', 'a in @;',
    'a instanceof @;', 'a = @;', 'a += @;', 'a + @;', 'a - @;', 'a * @;', 'a % @;', 'a / @;', '( @ );', '[ @ ];',
    'f( @ );', 'f(a, @ );', 'a, @;', 'a ? @ : b;', 'a ? b : @;', '! @;', '~ @;', '- @;', '+ @;', '++ @;', '-- @;',
    'a && @;', 'a || @;', 'a < @;', 'a == @;', 'a === @;', 'a & @;', 'a | @;', 'a ^ @;', 'a << @;', 'a >>> @;',
    'x = { p: @ };', 'x = [1, @ ];', 'var v = @;', 'a[ @ ];', 'x = a ? b : @;', 'a /= @;',
    # a division follows
    'a @;', 'x = a @;', '1 @;', '1.5 @;', '"s" @;', "'t' @;", '/x/ @;', 'x = /x/g @;', 'this @;', 'null @;',
    'true @;', 'false @;', 'a.b @;', 'a[0] @;', 'f() @;', 'f(a, b) @;', '(a) @;', '(a, b) @;', '[1] @;', '[] @;',
    'x = {} @;', 'x = {a: 1} @;', '({}) @;', 'x = function(){} @;', '(function(){}) @;', 'x = function g(a){ } @;',
    'a++ @;', 'a-- @;', '(a)++ @;', '(this.hits)-- @;', 'o.in++ @;', 'o.default-- @;', 'a[0]++ @;', 'x = (a.b)++ @;',
    'a.return @;', 'a.in @;', 'a.if @;', 'a.typeof @;', 'a.class @;', 'a.this @;',
    'a.null @;', 'a.true @;', '({in: 1}).in @;', 'x = a.b.new @;', 'new A @;', 'new A() @;', 'x = {a: 1}.a @;',
    'a.get @;', 'a.set @;', 'x = a[b](c) @;', 'x = (a)(b) @;', 'x = a.b.c @;', 'a.delete @;', 'a.void @;',
    'a.else @;', 'a.do @;', 'a.case @;', 'a.instanceof @;', 'a.var @;', 'a.function @;',
    # calls on reserved-word property names are calls, not statement headers
    'a.if(x) @;', 'a.for(x) @;', 'a.while(x) @;', 'a.with(x) @;', 'x = a.b.if(c)(d) @;', 'a.return(x) @;',
    # groupings after keywords that do not open a header
    'if (p) r = 0; else (hi + lo) @;', 'do (a) @; while (x);', 'return; (a) @;', 'x = typeof (a) @;',
    'x = void (a) @;', 'delete (a) @;', 'throw (a) @;', 'new (a) @;', 'case_ = a in (b) @;',
    # prefix ++/-- with layout before the slash
    '++ @;', '-- @;', 'x = ++ @;', 'x = - -- @;',
]
# layout between the dot and a reserved-word property name (and before the dot)
for _word in ('in', 'return', 'typeof', 'this', 'if(x)', 'while (b)', 'with(o)', 'for(k)', 'new', 'delete'):
    for _inner in ('\n', ' /*c*/ ', '//c\n', '\r\n    ', ' ', '/*\n*/'):
        TEMPLATES.append('a.%s%s @;' % (_inner, _word))
    TEMPLATES.append('a\n  .%s @;' % _word)
    TEMPLATES.append('x = a /*c*/ . /*d*/ %s @;' % _word)

LAYOUTS = ['', ' ', '\t', u'\xa0', '\n', '/*c*/', '//c\n', '/*\n*/', ' /*c*/ ', '\r\n', u'\u2028']
CONTINUATIONS = ['/ 2 / 1', '/re/.test(x)', '/re/g', '/=/.x', '/= 2', '/[/]/.x / 2']


# the same statement nested in contexts that keep parentheses / brackets / braces open around it
WRAPPERS = ['%s', '(function(){ %s })();', 'f(function(){ %s });', 'x = [function(){ %s }];', 'if (q) { %s }',
            'for (;;) { %s }', 'while ((function(){ %s })()) ;', 'o = { m: function(){ %s }, n: (1) };',
            'switch (k) { case (0): %s }', 'try { %s } finally { }']


def product_cases(wrappers=None):
    for wi, w in enumerate(WRAPPERS if wrappers is None else wrappers):
        for t in TEMPLATES:
            if wi and ('return' in t and False):
                continue
            for lay in LAYOUTS:
                for c in CONTINUATIONS:
                    yield w % t.replace('@', lay + c), (t, lay, c, wi)


def naive_slash_classes(ref):
    """for every token starting with `/`: (actual class, class by the naive rule)"""
    out = []
    toks = ref.tokens
    for i, k in enumerate(toks):
        if k.text.startswith('/'):
            actual = 'regex' if k.type == 'regex' else 'div'
            if i == 0:
                naive = 'regex'
            else:
                p = toks[i - 1]
                if p.type == 'punct':
                    naive = 'div' if p.text in (')', ']', '}') else 'regex'
                elif p.type == 'keyword':
                    naive = 'regex'
                else:
                    naive = 'div'
            gap = ref.text[toks[i - 1].end:k.start] if i else ref.text[:k.start]
            adjacent = ('/*' in gap or '//' in gap or any(c in gap for c in ref_es5.LT))
            out.append((actual, naive, adjacent))
    return out


def nontrivial(info):
    ref = info.get('refobj')
    if ref is None:
        return False
    return any(a != n or adj for a, n, adj in naive_slash_classes(ref))


def replay(case, acc):
    c03.check_text(acc, case['text'], (), None, case.get('origin', 'replay'))


from harness.shrink import text_shrinker  # noqa: E402
shrink = text_shrinker(replay, 'text')



def plan(tier, seed):
    from harness import refgate
    refgate.run(200 if tier == 'quick' else 2000)
    quick = tier == 'quick'
    shards = []
    ns = 16 if quick else 32
    for k in range(ns):
        shards.append({'name': 'prod-%d' % k, 'kind': 'prod', 'k': k, 'of': ns})
    n = 1200 if quick else 48000
    for k in range(16):
        shards.append({'name': 'g1-%d' % k, 'kind': 'g1', 'n': n // 16, 'hseed': seed * 1000 + k})
    return shards


def run_shard(shard):
    from harness.hyp import run_given
    acc = Acc()
    opens = shard['open_signatures']
    if shard['kind'] == 'prod':
        n = 0
        for idx, (text, (t, lay, c, wi)) in enumerate(product_cases()):
            if idx % shard['of'] != shard['k']:
                continue
            if wi and shard['tier'] == 'quick' and (idx // shard['of']) % 5 != shard['seed'] % 5:
                continue  # quick tier: every wrapped case of wrapper 0, every 5th of the others (phase by seed)
            n += 1
            info = c03.check_text(acc, text, opens, None, 'product')
            acc.case(text, nontrivial(info), {'text': text} if n % 40 == 0 else None)
            acc.label('prod_%s_%s' % (info.get('calmjs'), info.get('ref')))
            ref = info.get('refobj')
            if ref is not None:
                for a, nv, adj in naive_slash_classes(ref):
                    acc.label('slash_%s_naive_%s%s' % (a, nv, '_layout' if adj else ''))
        acc.extra['product_enumerated'] = n
    else:
        cfg = gen_program.Config(div_weight=3)

        def body(p):
            info = c03.check_text(acc, p['text'], opens, p['tree'], 'g1')
            acc.case(p['text'], nontrivial(info), {'text': p['text']})
            ref = info.get('refobj')
            if ref is not None:
                for a, nv, adj in naive_slash_classes(ref):
                    acc.label('slash_%s_naive_%s%s' % (a, nv, '_layout' if adj else ''))
        run_given(gen_program.program_strategy(cfg=cfg), body, shard['n'], shard['hseed'], acc)
    return acc.result()


def finish(m, cov, tier):
    total = sum(1 for _ in product_cases())
    cov['exhaustive'] = tier != 'quick'
    cov['exhaustive_part'] = ('slash-context product: %d wrappers x %d templates x %d layouts x %d continuations = %d '
                              'cases; %d run (quick tier: wrapper 0 completely, every 5th case of the others)' % (
                                  len(WRAPPERS), len(TEMPLATES), len(LAYOUTS), len(CONTINUATIONS), total,
                                  m['extra'].get('product_enumerated', 0)))
