"""C16 - tree walking reaches every node exactly once, in document order."""
from hypothesis import strategies as st

from harness.runner import Acc
from harness import pdiff, gen_program
from props import c03

PROPERTY = 'C16'
LEVEL = 'exploration'
RULE = ('trees parse(src) of programs nested 130-470 levels deep in eight patterns (else-if ladders, blocks, operator chains, arrays, calls, functions, member chains, conditionals) and of G1 programs (all node kinds; optional parts present and absent, tracked as a '
        '(kind, attribute, present/absent) table) and of the repository snippets. Oracle by reflection: the set of '
        'nodes reachable through instance attributes (Node values, lists of Nodes, the base-class child list; '
        'per-node metadata - positions, literal-token table, sourcepath, attached comments - excluded) must be '
        'exactly what Walker().walk yields, each once (by identity), each after its parent and before its own '
        'descendants (pre-order: a node\'s descendants are contiguous after it), identically on repeated walks and '
        'from a fresh Walker, through the module-level walk() and when a condition is passed to walk (documented as ignored), also when two traversals of one Walker object are interleaved or nested; filter(tree, c) == [n for n in walk(tree) if c(n)] for generated predicates; '
        'extract(tree, c, skip=k) returns the k-th match or raises TypeError exactly when there is none - also through one Walker object and condition functions shared by every tree of the shard. '
        'non-trivial = tree with >= 10 nodes and >= 5 kinds; distinct by source text')
ASSUMPTIONS = ['attached Comments nodes are metadata (children() is about syntactic sub-nodes); their reachability is '
               'reported, not judged', 'sibling order is reported, not judged (the statement does not fix it)']

META = ('lexpos', 'lineno', 'colno', 'sourcepath', 'comments', '_token_map')


def reflect_children(node, Node):
    out = []
    for name, v in vars(node).items():
        if name in META:
            continue
        if isinstance(v, Node):
            out.append(v)
        elif isinstance(v, (list, tuple)):
            for x in v:
                if isinstance(x, Node):
                    out.append(x)
    return out


def reflect_all(root, Node):
    """all descendants by reflection: dict id -> (node, parent id, depth)"""
    seen = {}
    order = []
    stack = [(root, None)]
    while stack:
        n, parent = stack.pop()
        for c in reflect_children(n, Node):
            if id(c) in seen:
                seen[id(c)][3] += 1
                continue
            seen[id(c)] = [c, id(n), None, 1]
            order.append(c)
            stack.append((c, id(n)))
    return seen, order


def check_tree(acc, opens, src, tree, preds):
    from calmjs.parse.asttypes import Node
    from calmjs.parse.walkers import Walker
    case = {'text': src}
    seen, _ = reflect_all(tree, Node)
    w = Walker()
    walked = list(w.walk(tree))
    ids = [id(n) for n in walked]
    if len(set(ids)) != len(ids):
        dup = next(n for n in walked if ids.count(id(n)) > 1)
        acc.fail(None, case, {'bucket': 'node_yielded_twice', 'kind': type(dup).__name__}, opens)
        return walked
    missing = [v[0] for k, v in seen.items() if k not in set(ids)]
    if missing:
        acc.fail(None, case, {'bucket': 'node_not_reached:' + type(missing[0]).__name__,
                              'kinds': sorted(set(type(m).__name__ for m in missing))}, opens)
        return walked
    extra = [n for n in walked if id(n) not in seen]
    if extra:
        acc.fail(None, case, {'bucket': 'walk_yields_unreachable:' + type(extra[0]).__name__}, opens)
        return walked
    shared = [v[0] for v in seen.values() if v[3] > 1]
    if shared:
        acc.label('shared_node_in_tree')
    # pre-order: parent before child, and descendants contiguous
    pos = dict((i, k) for k, i in enumerate(ids))
    for k, v in seen.items():
        parent = v[1]
        if parent != id(tree) and pos[parent] > pos[k]:
            acc.fail(None, case, {'bucket': 'child_before_parent', 'kind': type(v[0]).__name__}, opens)
            return walked
    # subtree sizes by reflection
    size = {}

    def subtree(n):
        s = 1
        for c in reflect_children(n, Node):
            s += subtree(c)
        size[id(n)] = s
        return s
    try:
        subtree(tree)
    except RecursionError:
        acc.skipped['recursion'] += 1
        return walked
    for n in walked:
        k = pos[id(n)]
        desc = walked[k + 1:k + size[id(n)]]
        mine, _ = reflect_all(n, Node)
        if set(id(x) for x in desc) != set(mine):
            acc.fail(None, case, {'bucket': 'descendants_not_contiguous_after_node', 'kind': type(n).__name__},
                     opens)
            return walked
    # repeatability
    again = [id(n) for n in w.walk(tree)]
    fresh = [id(n) for n in Walker().walk(tree)]
    if again != ids or fresh != ids:
        acc.fail(None, case, {'bucket': 'order_not_repeatable'}, opens)
        return walked
    # the module-level convenience function walks the same way
    from calmjs.parse import walkers as wmod
    if [id(n) for n in wmod.walk(tree)] != ids:
        acc.fail(None, case, {'bucket': 'module_level_walk_differs'}, opens)
        return walked
    # two traversals of one Walker object alive at the same time must not disturb each other
    inter = []
    for a, b in zip(w.walk(tree), w.walk(tree)):
        inter.append((id(a), id(b)))
    if inter != [(i, i) for i in ids]:
        acc.fail(None, case, {'bucket': 'interleaved_walks_disturb_each_other', 'yielded': len(inter),
                              'expected': len(ids)}, opens)
        return walked
    outer = []
    for n in w.filter(tree, lambda n: True):
        outer.append(id(n))
        if len(outer) % 3 == 0:
            try:
                # nested use inside the loop with a condition of its own, possibly abandoned early
                w.extract(n, lambda m: type(m).__name__ == 'Identifier')
            except TypeError:
                pass
            sum(1 for _ in w.filter(n, lambda m: False))
            sum(1 for _ in w.walk(n))
    if outer != ids:
        acc.fail(None, case, {'bucket': 'nested_traversal_disturbs_outer_one', 'yielded': len(outer),
                              'expected': len(ids)}, opens)
        return walked
    # filter / extract
    for name, pred in preds:
        # walk() documents that a condition passed to it is ignored: every node is yielded regardless
        for how, it in (('positional', w.walk(tree, pred)), ('keyword', w.walk(tree, condition=pred))):
            if [id(n) for n in it] != ids:
                acc.fail(None, dict(case, predicate=name), {'bucket': 'walk_with_condition_argument_drops_nodes',
                                                             'predicate': name, 'passed': how}, opens)
                return walked
        expect = [n for n in walked if pred(n)]
        got = list(w.filter(tree, pred))
        if [id(n) for n in got] != [id(n) for n in expect]:
            acc.fail(None, dict(case, predicate=name), {'bucket': 'filter_differs_from_walk_select', 'predicate': name,
                                                         'expected': len(expect), 'got': len(got)}, opens)
            return walked
        ks = set([0, 1, len(expect) - 1, len(expect), len(expect) + 1])
        if len(expect) <= 60:
            ks |= set(range(len(expect)))
        for k in sorted(ks):
            if k < 0:
                continue
            try:
                r = w.extract(tree, pred, skip=k)
                ok = k < len(expect) and r is expect[k]
            except TypeError:
                ok = k >= len(expect)
            except Exception as e:
                ok = False
            if not ok:
                acc.fail(None, dict(case, predicate=name, skip=k),
                         {'bucket': 'extract_wrong', 'predicate': name, 'skip': k, 'matches': len(expect)}, opens)
                return walked
    return walked


# one Walker object and a few condition functions that live as long as the process: every tree of a shard
# goes through them (trees come and go, their ids get reused)
_SHARED = {}


def _p_all(n):
    return True


def _p_ident(n):
    return type(n).__name__ == 'Identifier'


def _p_has_op(n):
    return hasattr(n, 'op')


def _p_none(n):
    return False


LONG_LIVED = [('all', _p_all), ('identifier', _p_ident), ('has op', _p_has_op), ('none', _p_none)]


def check_shared_walker(acc, opens, case, tree, walked):
    from calmjs.parse.walkers import Walker
    if 'w' not in _SHARED:
        _SHARED['w'] = Walker()
    w = _SHARED['w']
    for name, pred in LONG_LIVED:
        expect = [n for n in walked if pred(n)]
        if [id(n) for n in w.filter(tree, pred)] != [id(n) for n in expect]:
            acc.fail(None, dict(case, predicate=name), {'bucket': 'shared_walker_filter_differs', 'predicate': name}, opens)
            return False
        for k in sorted(set([0, len(expect) - 1, len(expect)])):
            if k < 0:
                continue
            try:
                r = w.extract(tree, pred, skip=k)
                ok = k < len(expect) and r is expect[k]
            except TypeError:
                ok = k >= len(expect)
            if not ok:
                acc.fail(None, dict(case, predicate=name, skip=k),
                         {'bucket': 'shared_walker_extract_wrong', 'predicate': name, 'skip': k,
                          'matches': len(expect)}, opens)
                return False
    return True


def make_preds(kinds_choice, value_choice):
    preds = []
    ks = frozenset(kinds_choice)
    preds.append(('kind in %s' % sorted(ks), lambda n: type(n).__name__ in ks))
    preds.append(('value == %r' % value_choice, lambda n: getattr(n, 'value', None) == value_choice))
    preds.append(('all', lambda n: True))
    preds.append(('none', lambda n: False))
    preds.append(('has op', lambda n: hasattr(n, 'op')))
    return preds


KINDS = ['Identifier', 'Number', 'String', 'BinOp', 'Assign', 'FunctionCall', 'FuncExpr', 'FuncDecl', 'If', 'Block',
         'ExprStatement', 'VarDecl', 'Array', 'Object', 'DotAccessor', 'Arguments', 'Elision', 'Case', 'Try', 'Catch',
         'GetPropAssign', 'SetPropAssign', 'PropIdentifier', 'NewExpr', 'For', 'ForIn', 'Return', 'EmptyStatement',
         'GroupingOp', 'Conditional', 'UnaryExpr', 'PostfixExpr', 'Label', 'Switch', 'CaseBlock', 'Default', 'Regex']


def replay(case, acc):
    c = pdiff.calmjs_parse(case['text'])
    if c[0] != 'ok':
        return
    check_tree(acc, (), case['text'], c[1], make_preds(case.get('kinds', ['Identifier']), case.get('value', 'a')))


from harness.shrink import text_shrinker  # noqa: E402
shrink = text_shrinker(replay, 'text')



def plan(tier, seed):
    n = 2400 if tier == 'quick' else 100000
    shards = [{'name': 'g1-%d' % k, 'kind': 'g1', 'n': n // 16, 'hseed': seed * 1000 + k} for k in range(16)]
    shards.append({'name': 'corpus', 'kind': 'corpus'})
    # trees nested a few hundred levels (well inside what the walker handles under the default recursion limit)
    depths = [130, 255, 300, 470] if tier == 'quick' else [64, 130, 200, 249, 250, 251, 255, 256, 257, 300, 333, 400,
                                                          450, 470]
    for i, pat in enumerate(sorted(DEEP)):
        # two tree levels per source level in the call pattern: stay clear of what the recursive walker can do at all
        shards.append({'name': 'deep-' + pat, 'kind': 'deep', 'pattern': pat,
                       'depths': [d for d in depths if d <= (300 if pat == 'calls' else 470)]})
    return shards


DEEP = {
    'else_if': lambda d: ''.join('if (a%d) { f(%d); } else ' % (i, i) for i in range(d)) + '{ g(); }',
    'blocks': lambda d: '{ x; ' * d + 'y;' + ' z; }' * d,
    'binary_left': lambda d: 'r = ' + ' + '.join('a%d' % i for i in range(d + 1)) + ';',
    'arrays': lambda d: 'v = ' + '[1, ' * d + '0' + ', 2]' * d + ';',
    'calls': lambda d: 'f(' * d + 'x' + ', 1)' * d + ';',
    'functions': lambda d: 'function f() { ' * (d // 2) + 'return 1;' + ' }' * (d // 2),
    'members': lambda d: 'o' + ''.join('.p%d[%d]' % (i, i) for i in range(d // 2)) + ' = 1;',
    'conditional_right': lambda d: 'r = ' + ''.join('c%d ? %d : ' % (i, i) for i in range(d)) + '0;',
}


def optional_table(acc, walked):
    for n in walked:
        for name, v in vars(n).items():
            if name in META or name == '_children_list':
                continue
            if v is None or v == []:
                acc.label('opt|%s.%s|absent' % (type(n).__name__, name))
            elif not isinstance(v, str):
                acc.label('opt|%s.%s|present' % (type(n).__name__, name))


def run_shard(shard):
    from harness.hyp import run_given
    acc = Acc()
    opens = shard['open_signatures']

    def one(src, kinds_choice, value_choice):
        c = pdiff.calmjs_parse(src)
        if c[0] != 'ok':
            acc.skipped['source_not_accepted'] += 1
            acc.case(src, False)
            return
        walked = check_tree(acc, opens, src, c[1], make_preds(kinds_choice, value_choice))
        if walked and not acc.failures:
            check_shared_walker(acc, opens, {'text': src}, c[1], walked)
        kinds = set(type(n).__name__ for n in walked)
        acc.case(src, len(walked) >= 10 and len(kinds) >= 5, {'text': src, 'nodes': len(walked)})
        for k in kinds:
            acc.label('kind_' + k)
        optional_table(acc, walked)
    if shard['kind'] == 'g1':
        strat = st.tuples(gen_program.program_strategy(layout_levels=(1,)),
                          st.lists(st.sampled_from(KINDS), min_size=1, max_size=4),
                          st.sampled_from(['a', 'b', '1', '"s"', 'x', '+', 'this']))
        run_given(strat, lambda x: one(x[0]['text'], x[1], x[2]), shard['n'], shard['hseed'], acc)
    elif shard['kind'] == 'deep':
        import sys
        limit = sys.getrecursionlimit()
        sys.setrecursionlimit(1000)   # the interpreter's default, which the harness raises elsewhere
        try:
            for d in shard['depths']:
                acc.label('deep_%s' % shard['pattern'])
                one(DEEP[shard['pattern']](d), ['Identifier', 'FunctionCall', 'If', 'Array'], 'x')
        finally:
            sys.setrecursionlimit(limit)
    else:
        for src in c03.load_corpus():
            one(src, ['Identifier', 'Assign'], 'a')
    return acc.result()
