"""C03 - parser accepts exactly the ES5 grammar and builds the tree it dictates."""
import json
import os

from harness.runner import Acc, VERIF
from harness import pdiff, findings, canon, gen_program, gen_tokens, ref_es5

PROPERTY = 'C03'
LEVEL = 'exploration'
RULE = ('(i) G1: programs derived from ECMA-262 5.1 Annex A with the dictated tree known by construction, '
        'rendered under 4 layout levels; (ii) G2: every string of <= n tokens (n=3 quick, 4 thorough) over a '
        '29-token alphabet, joined by single spaces; (iii) G3: single-token mutations (delete/insert/replace/'
        'duplicate/swap) and subtree-level mutations (the token range of a node duplicated, deleted, swapped with or replaced by another node\'s) of G1 outputs and of the repository test snippets; (iv) exhaustively, every BMP character whose general category makes it an identifier character both in Unicode 3.2 and in the current database, in first and in later position of an identifier; (v) exhaustively, every run of 1..4 (thorough: 5) operator characters <>=!+-*%&|^~?:. between two identifiers, as a statement and as the right-hand side of an assignment. Oracle: acceptance equals the '
        'reference front end R1 (both directions) and canonical trees are equal (for G1 also equal to the '
        'constructed tree). non-trivial = both accept and the tree has >= 4 node kinds and depth >= 3, or R1 '
        'rejects after consuming >= 2 tokens; distinct by source text')
ASSUMPTIONS = ['R1 (harness/ref_es5.py) is the trusted reference; it is validated against trees known by '
               'construction at the start of every run (gate) and by ./check REF',
               'function declarations in statement position and absence of early errors as the property states']


def load_corpus():
    out = []
    with open(os.path.join(VERIF, 'corpus', 'seed.jsonl')) as fd:
        for line in fd:
            out.append(json.loads(line)['src'])
    return out


def plan(tier, seed):
    from harness import refgate
    refgate.run(300 if tier == 'quick' else 3000)
    shards = []
    if tier == 'quick':
        n_g1, n_mut, nlen, ns = 1600, 2400, 3, 16
    else:
        n_g1, n_mut, nlen, ns = 64000, 100000, 4, 64
    for k in range(16 if tier == 'quick' else 32):
        shards.append({'name': 'g1-%d' % k, 'kind': 'g1', 'n': n_g1 // (16 if tier == 'quick' else 32),
                       'hseed': seed * 1000 + k})
    total = gen_tokens.count_strings(nlen)
    step = (total + ns - 1) // ns
    for k in range(ns):
        shards.append({'name': 'g2-%d' % k, 'kind': 'g2', 'lo': k * step, 'hi': min(total, (k + 1) * step),
                       'nlen': nlen})
    for k in range(16 if tier == 'quick' else 32):
        shards.append({'name': 'g3-%d' % k, 'kind': 'g3', 'n': n_mut // (16 if tier == 'quick' else 32),
                       'hseed': seed * 1000 + 500 + k})
    for k in range(16):
        shards.append({'name': 'ids-%d' % k, 'kind': 'ids', 'k': k, 'of': 16})
        shards.append({'name': 'ops-%d' % k, 'kind': 'ops', 'part': k, 'maxlen': 4 if tier == 'quick' else 5})
    return shards


_prod_seen = set()
_prod_all = None


def install_production_recorder():
    """wrap the p_ functions of the imported Parser class from the outside, to record
    which production shapes (function, number of symbols) are reduced - coverage only"""
    global _prod_all
    from calmjs.parse.parsers import es5 as mod
    P = mod.Parser
    if getattr(P, '_verif_wrapped', False):
        return
    allp = set()
    for name in list(vars(P)):
        if not name.startswith('p_') or name == 'p_error':
            continue
        f = vars(P)[name]
        doc = f.__doc__ or ''
        body = doc.replace('\\\n', ' ')
        if ':' not in body:
            continue
        rhs = body.split(':', 1)[1]
        for alt in rhs.split('|'):
            allp.add((name, len(alt.split()) + 1))

        def mk(f, name):
            def wrapper(self, p):
                _prod_seen.add((name, len(p)))
                return f(self, p)
            wrapper.__name__ = name
            wrapper.__doc__ = f.__doc__
            wrapper.__qualname__ = f.__qualname__
            return wrapper
        setattr(P, name, mk(f, name))
    P._verif_wrapped = True
    _prod_all = allp


def check_text(acc, text, opens, expected_tree=None, origin='g1'):
    """the C03 oracle on one text; returns info"""
    failure, info = pdiff.compare(text, expected_tree)
    if failure is None:
        return info
    if failure['kind'] == 'exception':
        # any non-syntax-error exception is C12's violation; counted here as skipped
        acc.skipped['exception_is_C12'] += 1
        return info

    def rerun(t2):
        f2, _ = pdiff.compare(t2)
        if f2 is not None and f2['kind'] == 'exception':
            return None
        return f2
    sig, extra = findings.classify_parse_failure(text, failure, info, rerun)
    detail = dict(failure)
    detail.update(extra)
    detail['bucket'] = failure['kind'] + ':' + _bucket(failure)
    if 'still_fails' in extra:
        # report the neutralised text: it fails without any listed shape in it
        acc.fail(None, {'text': extra['neutralised'], 'origin': origin, 'original': text}, detail, opens)
    else:
        acc.fail(sig, {'text': text, 'origin': origin}, detail, opens)
    return info


def _bucket(failure):
    import re
    s = failure.get('calmjs_error') or failure.get('ref_msg') or failure.get('diff') or ''
    s = re.sub(r'\d+:\d+', 'L:C', s)
    s = re.sub(r"'[^']*'", "'_'", s)
    return s[:60]


def replay(case, acc):
    check_text(acc, case['text'], (), None, case.get('origin', 'replay'))


from harness.shrink import text_shrinker  # noqa: E402
shrink = text_shrinker(replay, 'text')



def nontrivial(info, text):
    if info.get('calmjs') == 'ok' and info.get('ref') == 'ok' and 'ctree' in info:
        n, depth, kinds = canon.tree_stats(info['ctree'])
        return len(kinds) >= 4 and depth >= 3, kinds
    if info.get('ref') == 'reject':
        return info.get('ref_ntokens', 0) >= 2, ()
    return False, ()


def run_shard(shard):
    from harness.hyp import run_given
    from hypothesis import strategies as st
    acc = Acc()
    opens = shard['open_signatures']
    install_production_recorder()
    kind = shard['kind']
    if kind == 'g1':
        def body(p):
            info = check_text(acc, p['text'], opens, p['tree'], 'g1')
            nt, kinds = nontrivial(info, p['text'])
            acc.case(p['text'], nt, {'text': p['text'], 'layout_level': p['level']})
            acc.label('g1_layout_%d' % p['level'])
            for k in kinds:
                acc.label('kind_' + k)
            acc.label('g1_calmjs_%s' % info.get('calmjs'))
        run_given(gen_program.program_strategy(), body, shard['n'], shard['hseed'], acc)
    elif kind == 'ids':
        # every BMP character that is an identifier character under any Unicode version >= 3.0, in first and
        # in later position of an identifier (exhaustive; 40 declarations per program)
        chars = [(c, True) for c in gen_program.STABLE_START] + [(c, False) for c in gen_program.STABLE_PART]
        mine = chars[shard['k']::shard['of']]
        n = 0
        for i in range(0, len(mine), 40):
            names = []
            for c, is_start in mine[i:i + 40]:
                names.append((c + 'q' + c) if is_start else ('q' + c + '_' + c))
            text = 'var ' + ', '.join(names) + ';'
            info = check_text(acc, text, opens, None, 'ids')
            n += len(names)
            acc.case(text, False, {'text': text} if i % 4000 == 0 else None)
            acc.label('ids_%s_%s' % (info.get('calmjs'), info.get('ref')))
        acc.extra['identifier_characters_swept'] = n
    elif kind == 'ops':
        # every run of operator characters between two identifiers, as a program: `a<!--b`, `a---b`, `a+ +b` ...
        from props import c06
        for text in c06.operator_runs(shard['part'], shard['maxlen']):
            for text in (text, 'x = ' + text + ';'):
                info = check_text(acc, text, opens, None, 'ops')
                acc.case(text, info.get('calmjs') == 'ok' and len(text) >= 5,
                         {'text': text} if text.startswith('a<!') else None)
                acc.label('ops_%s_%s' % (info.get('calmjs'), info.get('ref')))
    elif kind == 'g2':
        for idx in range(shard['lo'], shard['hi']):
            toks = gen_tokens.string_at(idx)
            text = gen_tokens.join(toks)
            info = check_text(acc, text, opens, None, 'g2')
            nt, _ = nontrivial(info, text)
            acc.case(text, nt, {'text': text} if idx % 97 == 0 else None)
            acc.label('g2_%s_%s' % (info.get('calmjs'), info.get('ref')))
        acc.extra['g2_enumerated'] = shard['hi'] - shard['lo']
    else:
        corpus = load_corpus()

        @st.composite
        def mutant(draw):
            if draw(st.integers(0, 2)) == 0:
                base = draw(st.sampled_from(corpus))
                try:
                    toks = [t.text for t in ref_es5.parse(base).tokens]
                except ref_es5.RefSyntaxError:
                    toks = base.split()
                src = 'corpus'
            else:
                p = draw(gen_program.program_strategy(max_fuel=4, layout_levels=(1,)))
                toks = [t.text for t in p['toks']]
                src = 'g1'
            if draw(st.integers(0, 2)) == 0:
                # subtree-level mutation (a clause, property, statement, operand ... duplicated, deleted,
                # swapped or replaced): reaches the "at most one" / "exactly one" rules of the grammar
                try:
                    rf = ref_es5.parse(' '.join(toks))
                except ref_es5.RefSyntaxError:
                    rf = None
                if rf is not None:
                    kind_, out = gen_tokens.mutate_tree(draw, rf)
                    return src, kind_, ' '.join(out)
            kind_, out = gen_tokens.mutate(draw, toks)
            return src, kind_, ' '.join(out)

        def body(m):
            src, kind_, text = m
            info = check_text(acc, text, opens, None, 'g3')
            nt, _ = nontrivial(info, text)
            acc.case(text, nt, {'text': text, 'mutation': kind_})
            acc.label('g3_%s_%s' % (kind_, 'accepted' if info.get('ref') == 'ok' else 'rejected'))
        run_given(mutant(), body, shard['n'], shard['hseed'], acc)
    acc.extra['productions_reduced'] = sorted('%s/%d' % p for p in _prod_seen)
    acc.extra['productions_total'] = [len(_prod_all or ())]
    return acc.result()


def finish(m, cov, tier):
    red = m['extra'].get('productions_reduced', [])
    cov['production_coverage'] = {'reduced': len(red), 'total_shapes': (m['extra'].pop('productions_total', None) or [None])[0],
                                  'note': 'shape = (p_ function, number of symbols); recorded by wrapping the '
                                          'imported Parser class from outside'}
    m['extra'].pop('productions_reduced', None)
    cov['exhaustive_part'] = 'G2: all %d strings of <= %d tokens over the alphabet' % (
        m['extra'].get('g2_enumerated', 0), 3 if tier == 'quick' else 4)
