"""C02 - minified output parses back to the same program; no token fusion."""
from hypothesis import strategies as st

from harness.runner import Acc
from harness import pdiff, canon, gen_program, ref_es5, unparse
from props import c03

PROPERTY = 'C02'
LEVEL = 'exploration'
RULE = ('(i) G1 programs, repository snippets and programs made long by one sibling list of 1200 items (printed under the default recursion limit) x drop_semi in {False, True} x (for sources with comments) parsed with or without comment capture; (ii) adjacency product, enumerated (every fifth case also with a captured block comment in every gap): '
        'slot templates (every binary/prefix/postfix/keyword operator, return/throw/case/new/var/else/do-while/'
        'typeof/void/delete/in/instanceof, function and accessor names, member access on every literal kind, division, '
        'conditional, labels, statements after ) } else do) x operands chosen by first/last character class (ASCII and '
        'non-ASCII identifiers, $ and _ names, identifiers ending in combining mark / connector punctuation, every '
        'number spelling, strings, regex literals, signed/prefixed/postfixed operands, grouping, array, object, '
        'function, this/null). Only sources that calmjs accepts and reads as the reference parser does are in the '
        'domain. Oracle: m = minify_print(parse(src), drop_semi); calmjs and the reference parser both accept m and '
        'read the tree of src (string line continuations stripped; with drop_semi stand-alone empty statements in '
        'statement lists ignored); the reference token sequence of m minus statement-terminating semicolons equals '
        'that of src (no fusion, no class change, for-header semicolons intact). non-trivial = m has a boundary '
        'where two tokens touch with no white space and both sides are word characters, signs, `/`, `.` or `$`, or '
        '(drop_semi) at least one semicolon was dropped; distinct by (source, drop_semi)')
ASSUMPTIONS = c03.ASSUMPTIONS

HAZARD = set('abcdefghijklmnopqrstuvwxyzABCDEFGHIJKLMNOPQRSTUVWXYZ0123456789_$+-/.')


def is_hazard_char(c):
    return c in HAZARD or ord(c) > 127


def check(acc, opens, src, drop_semi, origin, with_comments=False):
    tree, ref = unparse.source_in_domain(acc, src, with_comments=with_comments)
    if tree is None:
        return None
    case = {'text': src, 'drop_semi': drop_semi, 'origin': origin, 'with_comments': with_comments}
    try:
        t0 = canon.canon_calmjs(tree)
        m = unparse.minify(tree, drop_semi=drop_semi)
    except Exception as e:
        acc.fail(None, case, {'bucket': 'print_raises:' + type(e).__name__, 'error': repr(e)[:300]}, opens)
        return None

    def norm(t):
        t = unparse.strip_continuations(t)
        if drop_semi:
            t = unparse.drop_empty_statements(t)
        return t
    want = norm(t0)
    info = {'tree': t0, 'output': m}
    r = pdiff.ref_parse(m)
    if r[0] != 'ok':
        acc.fail(classify(src, m, drop_semi), case, {'bucket': 'reference_rejects_output', 'output': m,
                                                     'error': str(r[1])}, opens)
        return info
    if norm(r[1].tree) != want:
        acc.fail(classify(src, m, drop_semi), case, {'bucket': 'reference_reads_other_tree', 'output': m,
                                                     'diff': canon.first_diff(norm(r[1].tree), want)}, opens)
        return info
    c2 = pdiff.calmjs_parse(m)
    if c2[0] != 'ok':
        # the reference accepts m: a rejection by calmjs of valid output is a parser disagreement on m
        f2, i2 = pdiff.compare(m)
        acc.fail(classify(src, m, drop_semi, parser_failure=(f2, i2)), case,
                 {'bucket': 'calmjs_rejects_output', 'output': m, 'error': c2[1]}, opens)
        return info
    t1 = canon.canon_calmjs(c2[1])
    if norm(t1) != want:
        f2, i2 = pdiff.compare(m)
        acc.fail(classify(src, m, drop_semi, parser_failure=(f2, i2)), case,
                 {'bucket': 'reparse_tree_differs', 'output': m, 'diff': canon.first_diff(norm(t1), want)}, opens)
        return info
    a = unparse.token_seq(ref, drop_semi, strip_cont=True)
    b = unparse.token_seq(r[1], drop_semi, strip_cont=True)
    if a != b:
        d = next((i for i, (x, y) in enumerate(zip(a, b)) if x != y), min(len(a), len(b)))
        acc.fail(classify(src, m, drop_semi), case, {'bucket': 'token_sequence_differs', 'output': m,
                                                     'source_tokens': a[d:d + 3], 'output_tokens': b[d:d + 3]}, opens)
        return info
    # accounting
    touching = 0
    toks = r[1].tokens
    for x, y in zip(toks, toks[1:]):
        if x.end == y.start and is_hazard_char(x.text[-1]) and is_hazard_char(y.text[0]):
            touching += 1
    dropped = len([s for s in ref.semis if s['kind'] == 'explicit']) - \
        len([s for s in r[1].semis if s['kind'] == 'explicit'])
    info['touching'] = touching
    info['dropped'] = dropped
    return info


def classify(src, m, drop_semi, parser_failure=None):
    """calmjs rejecting / misreading its own (valid) output is a parser-side disagreement on m:
    attribute it to a listed parser finding when the neutralised m passes the differential"""
    if parser_failure is not None:
        from harness import findings
        f2, i2 = parser_failure
        if f2 is not None and f2['kind'] not in ('exception',):
            def rerun(t2):
                g, _ = pdiff.compare(t2)
                return g
            sig, _ = findings.classify_parse_failure(m, f2, i2, rerun)
            return sig
    return None


def replay(case, acc):
    check(acc, (), case['text'], case['drop_semi'], case.get('origin', 'replay'), case.get('with_comments', False))


from harness.shrink import text_shrinker  # noqa: E402
shrink = text_shrinker(replay, 'text')



# ---------------------------------------------------------------------------
# adjacency product

OPERANDS = ['a', '$', '_x', 'x$', u'\u00e9', u'a\u00e9', u'\u00e0', u'a\u203f', u'\u65e5', '1', '10', '1.', '.5', '1e3', '1.5',
            '0x1f', '017', '"s"', "'t'", '/re/', '/re/g', '/=/', '+x', '++x', '-x', '--x', 'x++', 'x--', '!x', '~x',
            '(x)', '[x]', '{}', 'function(){}', 'this', 'null', 'true', 'typeof x', 'void 0', 'new X', 'a.in',
            'a.if', 'f()', 'a[0]', '+1', '-1', '- -1', '+ +x', 'x ? y : z', 'x, y', 'x = y', 'x in y', '/re/.x',
            u'$\u00e9', 'in1', 'a / b', 'a / /re/', '/a/', u'a\u200c', u'b\u200d', '(new X)', '(new a.B)', 'new X()', '(function(){})', '(a, b)', '({})']
TEMPLATES = ['X + Y;', 'X - Y;', 'X * Y;', 'X / Y;', 'X % Y;', 'X < Y;', 'X > Y;', 'X << Y;', 'X >> Y;', 'X >>> Y;',
             'X & Y;', 'X | Y;', 'X ^ Y;', 'X && Y;', 'X || Y;', 'X == Y;', 'X === Y;', 'X != Y;', 'X in Y;',
             'X instanceof Y;', 'X = Y;', 'X += Y;', 'X -= Y;', 'X /= Y;', 'X, Y;', 'X ? Y : X;', 'X ? X : Y;',
             'Y ? X : X;',
             '+ X;', '- X;', '++ X;', '-- X;', '! X;', '~ X;', 'typeof X;', 'void X;', 'delete X;', 'new X;',
             'new X(Y);', 'X ++;', 'X --;',
             'function f(){ return X; }', 'throw X;', 'switch (a) { case X: Y; }', 'var v = X, w = Y;', 'var v = X;',
             'if (a) b; else X;', 'do X; while (Y);', 'do { } while (X);', 'if (X) Y;', 'while (X) Y;',
             'for (X; Y; X) Y;', 'for (X in Y) ;', 'for (var v in X) Y;', 'for (var v = X; Y;) ;', 'with (X) Y;',
             'L: X;', '{ X; } Y;', 'X; Y;', 'X.p;', 'X.p = Y;', 'X[Y];', 'X(Y);', 'X(Y, X);', '[X, Y];', '[X, , Y];',
             'v = { p: X, q: Y };', 'v = { get p(){ return X; }, set p(v){ Y; } };', 'function X(){ }',
             'v = function X(){ Y; };', 'try { X; } catch (e) { Y; } finally { X; }', 'a = X / Y / X;',
             'a = X - - Y;', 'a = X + + Y;', 'a = X - -- Y;', 'a = X + ++ Y;', 'X ++ + Y;', 'X -- - Y;',
             'return X', 'X\nY', 'a = X\n++Y;', 'if (X) { } else { }', 'while (X);', 'for (;;);', 'if (X); else Y;',
             'if (X);', 'for (X in Y);', 'with (X);', 'L: ;', 'do ; while (X)', '{ ; }', 'function f(){ ; }',
             'if (a) { X } Y', 'switch (X) { default: ; }', 'while (a) X: ;',
             # stray empty statements and text-less blocks next to one another at the end of a statement list
             'X;; {}', 'X; ; { ; }', 'function f(){ X;; {} }', 'if (a) { X;; {} }', 'X; {} ;', 'X;;; {}', 'X; {} {}',
             'X; {;} Y', 'switch (a) { case 1: X;; {} }', 'while (a) { X; ; {{}} }', '{} ; X', ';; X', 'X;;']


def product_cases():
    for t in TEMPLATES:
        uses_y = 'Y' in t
        for x in OPERANDS:
            if 'X' not in t:
                yield t, (t, None, None)
                break
            if uses_y:
                for y in OPERANDS:
                    yield t.replace('X', x).replace('Y', y), (t, x, y)
            else:
                yield t.replace('X', x), (t, x, None)


def plan(tier, seed):
    from harness import refgate
    refgate.run(200 if tier == 'quick' else 2000)
    quick = tier == 'quick'
    n = 1600 if quick else 64000
    shards = [{'name': 'g1-%d' % k, 'kind': 'g1', 'n': n // 16, 'hseed': seed * 1000 + k} for k in range(16)]
    shards.append({'name': 'corpus', 'kind': 'corpus'})
    ns = 32
    for k in range(ns):
        shards.append({'name': 'adj-%d' % k, 'kind': 'adj', 'k': k, 'of': ns, 'stride': 12 if quick else 1})
    return shards


def run_shard(shard):
    from harness.hyp import run_given
    acc = Acc()
    opens = shard['open_signatures']

    def one(src, origin, sample=True, wc=False):
        for ds in (False, True):
            info = check(acc, opens, src, ds, origin, wc)
            nt = bool(info) and (info.get('touching', 0) >= 1 or (ds and info.get('dropped', 0) >= 1))
            acc.case((src, ds, wc), nt, {'source': src, 'drop_semi': ds, 'with_comments': wc, 'output': info['output']}
                     if (info and sample) else None)
            acc.label('with_comments_%s' % wc)
            if info:
                acc.label('touching_%d' % min(info.get('touching', 0), 5))
                if ds:
                    acc.label('dropped_semis_%d' % min(info.get('dropped', 0), 5))
    if shard['kind'] == 'g1':
        # a tree parsed with comment capture carries Comments nodes; the minifier prints nothing for them
        run_given(st.tuples(gen_program.program_strategy(), st.booleans()),
                  lambda x: one(x[0]['text'], 'g1', wc=x[1] and ('/*' in x[0]['text'] or '//' in x[0]['text'])),
                  shard['n'], shard['hseed'], acc)
    elif shard['kind'] == 'corpus':
        for src in c03.load_corpus():
            one(src, 'corpus')
        for i, src in enumerate(gen_program.array_shapes()):
            one(src, 'array_shapes', sample=(i % 50 == 0))
        import sys
        limit = sys.getrecursionlimit()
        sys.setrecursionlimit(1000)   # the interpreter's default
        try:
            for name, src in gen_program.long_lists(1200):
                one(src, 'long_' + name, sample=False)
        finally:
            sys.setrecursionlimit(limit)
    else:
        n = 0
        for idx, (src, meta) in enumerate(product_cases()):
            if idx % shard['of'] != shard['k']:
                continue
            if shard['stride'] > 1 and (idx // shard['of']) % shard['stride'] != shard['seed'] % shard['stride']:
                continue
            n += 1
            one(src, 'adjacency', sample=(n % 60 == 0))
            if n % 5 == 0 and '\n' not in src:
                # the same slot with a captured comment at every gap of the source
                one(src.replace(' ', ' /*c*/ '), 'adjacency_commented', sample=(n % 300 == 0), wc=True)
        acc.extra['adjacency_enumerated'] = n
    return acc.result()


def finish(m, cov, tier):
    total = sum(1 for _ in product_cases())
    cov['adjacency_total'] = total
    cov['exhaustive_part'] = 'adjacency product: %d of %d (template, operand, operand) sources this run%s' % (
        m['extra'].get('adjacency_enumerated', 0), total,
        '' if tier != 'quick' else ' (quick tier: every 12th, phase chosen by seed)')
    if tier != 'quick':
        cov['exhaustive'] = True
