"""C06 - token stream is a faithful, gap-free, correctly located segmentation."""
import re

from harness.runner import Acc
from harness import gen_lexsoup, gen_program, positions, ref_es5

PROPERTY = 'C06'
LEVEL = 'exploration'
RULE = ('inputs: (a) slash-free lexical soup - identifiers incl. non-ASCII/keyword-prefixed, all keywords, all '
        'punctuators, numeric and string spellings, every ES5 white-space and line-terminator code point, comments '
        '- built so that it must lex; (a2) exhaustively every run of 1..4 (thorough: 5) operator characters <>=!+-*%&|^~?:. between two identifiers; (b) G1 programs in all layouts (contain `/`). Iterate Lexer(yield_comments=True), '
        'drop the library\'s auto-generated (inserted) tokens. Oracle: offsets strictly increase, '
        'text[lexpos:lexpos+len(value)] == value, gaps and tail are only WhiteSpace|LineTerminator, line/column '
        'equal the reference count at lexpos; for (a), (a2) the (class, text, offset) list equals the reference lexer\'s; '
        'for (b) per-token class/text consistency and longest-match of punctuators. (c) histories: in an interpreter of its own, a first text read through one of Lexer() / with_comments / yield_comments / a Parser, then every text of a small multi-line pool through fresh Lexer objects of alternating flavour - positions as above (what one lexer read must not show in another). Inputs on which the lexer '
        'raises are outside the quantifier (counted). non-trivial = >= 2 line terminator kinds, or a multi-line '
        'token, or a non-ASCII identifier/white space, or adjacent punctuators; distinct by text')
ASSUMPTIONS = ['reference lexer of R1 and reference position arithmetic R5 (harness/positions.py)']

PUNCT_SET = frozenset(ref_es5.PUNCT) | frozenset(['/', '/='])
WS_CODEPOINTS = [0x09, 0x0b, 0x0c, 0x20, 0xa0, 0xfeff, 0x1680] + list(range(0x2000, 0x200b)) + [0x202f, 0x205f, 0x3000]
LT_CODEPOINTS = [0x0a, 0x0d, 0x2028, 0x2029]
LAYOUT_CHARS = frozenset(chr(c) for c in WS_CODEPOINTS + LT_CODEPOINTS)
LS, PS = chr(0x2028), chr(0x2029)


class _Gap(object):
    @staticmethod
    def match(s):
        return all(c in LAYOUT_CHARS for c in s)


GAP_OK = _Gap


def lex(text):
    from calmjs.parse.lexers.es5 import Lexer
    from calmjs.parse.lexers.tokens import AutoLexToken
    from calmjs.parse.exceptions import ECMASyntaxError
    lx = Lexer(yield_comments=True)
    lx.input(text)
    out = []
    try:
        for tok in lx:
            if isinstance(tok, AutoLexToken):
                continue
            out.append((tok.type, tok.value, tok.lexpos, tok.lineno, getattr(tok, 'colno', None)))
    except ECMASyntaxError as e:
        return None, str(e)
    return out, None


def klass(tok_type, keywords):
    if tok_type in ('ID', 'GETPROP', 'SETPROP'):
        return 'ident'
    if tok_type in keywords:
        return 'keyword'
    if tok_type == 'NUMBER':
        return 'num'
    if tok_type == 'STRING':
        return 'str'
    if tok_type == 'REGEX':
        return 'regex'
    if tok_type == 'LINE_COMMENT':
        return 'line'
    if tok_type == 'BLOCK_COMMENT':
        return 'block'
    return 'punct'


def check_text(acc, text, opens, origin, compare_ref):
    from calmjs.parse.lexers.es5 import Lexer
    keywords = set(Lexer.keywords)
    toks, err = lex(text)
    if toks is None:
        acc.skipped['lexer_raises_' + origin] += 1
        acc.label('lexer_error:' + re.sub(r'\d+:\d+', 'L:C', re.sub(r"'[^']*'", "'_'", err or ''))[:40])
        return None
    case = {'text': text, 'origin': origin, 'compare_ref': compare_ref}
    lm = positions.LineMap(text)
    pos = 0
    for (ty, val, lexpos, line, col) in toks:
        if lexpos < pos:
            acc.fail(None, case, {'bucket': 'overlap_or_order', 'token': [ty, val, lexpos], 'prev_end': pos}, opens)
            return toks
        if text[lexpos:lexpos + len(val)] != val:
            acc.fail(None, case, {'bucket': 'value_not_substring', 'token': [ty, val, lexpos],
                                  'input_there': text[lexpos:lexpos + len(val)]}, opens)
            return toks
        gap = text[pos:lexpos]
        if not GAP_OK.match(gap):
            acc.fail(None, case, {'bucket': 'gap_not_layout', 'gap': gap, 'before_token': [ty, val, lexpos]}, opens)
            return toks
        exp = lm.linecol(lexpos)
        if (line, col) != exp:
            acc.fail(None, case, {'bucket': 'line_col', 'token': [ty, val, lexpos], 'reported': [line, col],
                                  'expected': list(exp)}, opens)
            return toks
        pos = lexpos + len(val)
    if not GAP_OK.match(text[pos:]):
        acc.fail(None, case, {'bucket': 'tail_not_layout', 'tail': text[pos:]}, opens)
        return toks
    # classification
    if compare_ref:
        try:
            rtoks, rcomments = ref_es5.tokenize(text)
        except ref_es5.RefSyntaxError as e:
            acc.fail(None, case, {'bucket': 'lexer_accepts_invalid_soup', 'ref_error': str(e)}, opens)
            return toks
        got = [(klass(ty, keywords), val, lexpos) for (ty, val, lexpos, _, _) in toks
               if ty not in ('LINE_COMMENT', 'BLOCK_COMMENT')]
        exp = [(k.type, k.text, k.start) for k in rtoks]
        if got != exp:
            d = next((i for i, (a, b) in enumerate(zip(got, exp)) if a != b), min(len(got), len(exp)))
            acc.fail(None, case, {'bucket': 'classification', 'index': d, 'got': got[d:d + 2],
                                  'expected': exp[d:d + 2]}, opens)
            return toks
        gotc = [(klass(ty, keywords), val, lexpos) for (ty, val, lexpos, _, _) in toks
                if ty in ('LINE_COMMENT', 'BLOCK_COMMENT')]
        expc = [(c[0], c[1], c[2]) for c in rcomments]
        if gotc != expc:
            acc.fail(None, case, {'bucket': 'comments', 'got': gotc[:3], 'expected': expc[:3]}, opens)
    else:
        for (ty, val, lexpos, _, _) in toks:
            k = klass(ty, keywords)
            bad = None
            if k == 'punct':
                if val not in PUNCT_SET:
                    bad = 'punctuator token with non-punctuator text'
                elif not val.startswith('/'):
                    for p in ref_es5.PUNCT:
                        if len(p) > len(val) and p.startswith(val) and text.startswith(p, lexpos):
                            bad = 'not longest match: %r available' % p
                            break
            elif k == 'keyword':
                if val not in ref_es5.RESERVED or ty.lower() != val:
                    bad = 'keyword class on non-keyword text'
            elif k == 'ident':
                if val in ref_es5.RESERVED:
                    bad = 'reserved word classified as identifier'
                else:
                    try:
                        r, _ = ref_es5.tokenize(val)
                        if len(r) != 1 or r[0].type != 'ident':
                            bad = 'identifier token is not a single identifier'
                    except ref_es5.RefSyntaxError:
                        bad = 'identifier token does not lex as identifier'
            elif k in ('num', 'str'):
                try:
                    r, _ = ref_es5.tokenize(val)
                    if len(r) != 1 or r[0].type != k:
                        bad = '%s token text is not a single %s literal' % (k, k)
                except ref_es5.RefSyntaxError:
                    bad = '%s token does not lex' % k
            if bad:
                acc.fail(None, case, {'bucket': 'self_classification:' + bad[:30], 'token': [ty, val, lexpos],
                                      'why': bad}, opens)
                return toks
    return toks


def replay(case, acc):
    if 'history' in case:
        from harness import build
        root = build.make_copy()
        try:
            check_history(acc, (), root, case['history'])
        finally:
            build.remove(root)
        return
    check_text(acc, case['text'], (), case.get('origin', 'replay'), case.get('compare_ref', False))


# ---- the first lexers of a process: what one Lexer object read must not show in the positions another reports.
# Every history runs in an interpreter of its own, so that its first lexer is the first lexer of the process.
FLAVOURS = ['plain', 'with_comments', 'yield_comments', 'parser']
HISTORY_TEXTS = ['x', 'a\n\nb\r\nc\rd', 'p /*\n\n*/ q\u2028r\u2029s', 'u = "v\\\nw";\nz', '// c\n\n\n t', '',
                 'var k = 1;\nfunction f() {\n  return k;\n}\n']
CHILD_CODE = r'''
import json
from calmjs.parse.lexers.es5 import Lexer
from calmjs.parse.lexers.tokens import AutoLexToken
from calmjs.parse.parsers.es5 import Parser
out = []
for flavour, text in json.loads(sys.argv[1]):
    if flavour == 'parser':
        p = Parser()
        try:
            p.parse(text)
        except Exception:
            pass
        out.append(None)
        continue
    lx = Lexer(with_comments=(flavour == 'with_comments'), yield_comments=(flavour == 'yield_comments'))
    lx.input(text)
    toks = []
    try:
        for tok in lx:
            if not isinstance(tok, AutoLexToken):
                toks.append([tok.type, tok.value, tok.lexpos, tok.lineno, getattr(tok, 'colno', None)])
    except Exception as e:
        toks = repr(e)
    out.append(toks)
print(json.dumps(out))
'''


def histories():
    import itertools
    out = []
    # first step: every flavour x every text; then each text once more through every lexer flavour
    for flavour, first in itertools.product(FLAVOURS, HISTORY_TEXTS):
        h = [[flavour, first]]
        for k, text in enumerate(HISTORY_TEXTS):
            h.append([FLAVOURS[(k + len(first)) % 3], text])
        out.append(h)
    return out


def check_history(acc, opens, root, history):
    import json
    import subprocess
    import sys
    from harness import build
    p = subprocess.run([sys.executable, '-c', build.boot_code(root) + CHILD_CODE, json.dumps(history)],
                       env=build.child_env(root), capture_output=True, text=True, timeout=300)
    case = {'history': history}
    if p.returncode != 0:
        acc.fail(None, case, {'bucket': 'history_child_fails', 'stderr': p.stderr[-400:]}, opens)
        return False
    got = json.loads(p.stdout.strip().splitlines()[-1])
    ok = True
    for step, ((flavour, text), toks) in enumerate(zip(history, got)):
        if toks is None:
            continue
        if not isinstance(toks, list):
            acc.skipped['lexer_raises_history'] += 1
            continue
        lm = positions.LineMap(text)
        for (ty, val, lexpos, line, col) in toks:
            exp = lm.linecol(lexpos)
            if text[lexpos:lexpos + len(val)] != val or (line, col) != exp:
                acc.fail(None, case, {'bucket': 'history_position', 'step': step, 'flavour': flavour, 'text': text,
                                      'token': [ty, val, lexpos], 'reported': [line, col], 'expected': list(exp)},
                         opens)
                ok = False
                break
        if not ok:
            break
    return ok


from harness.shrink import text_shrinker  # noqa: E402
shrink = text_shrinker(replay, 'text')



def nontrivial(text, toks):
    kinds = set()
    rest = text.replace('\r\n', '')
    if '\r\n' in text:
        kinds.add('crlf')
    for c in ('\n', '\r', LS, PS):
        if c in rest:
            kinds.add(c)
    if len(kinds) >= 2:
        return True
    if any(ord(c) > 127 for c in text):
        return True
    for (ty, val, lexpos, _, _) in toks or ():
        if any(c in val for c in ('\n', '\r', LS, PS)):
            return True
    for a, b in zip(toks or (), (toks or ())[1:]):
        if a[2] + len(a[1]) == b[2] and a[1] in PUNCT_SET and b[1] in PUNCT_SET:
            return True
    return False


def plan(tier, seed):
    quick = tier == 'quick'
    n_soup, n_g1 = (6000, 1200) if quick else (480000, 40000)
    shards = []
    for k in range(16):
        shards.append({'name': 'soup-%d' % k, 'kind': 'soup', 'n': n_soup // 16, 'hseed': seed * 1000 + k})
        shards.append({'name': 'g1-%d' % k, 'kind': 'g1', 'n': n_g1 // 16, 'hseed': seed * 1000 + 100 + k})
        shards.append({'name': 'punct-%d' % k, 'kind': 'punct', 'part': k, 'maxlen': 4 if quick else 5})
        shards.append({'name': 'history-%d' % k, 'kind': 'history', 'part': k})
    return shards


OPERATOR_CHARS = '<>=!+-*%&|^~?:.'


def operator_runs(part, maxlen):
    """every string of 1..maxlen operator characters (slash-free), between two identifiers: the run has to be cut
    into punctuators longest-first, whatever it looks like in other languages or later editions"""
    import itertools
    k = 0
    for n in range(1, maxlen + 1):
        for t in itertools.product(OPERATOR_CHARS, repeat=n):
            k += 1
            if k % 16 == part:
                yield 'a' + ''.join(t) + 'b'


def run_shard(shard):
    from harness.hyp import run_given
    acc = Acc()
    opens = shard['open_signatures']
    if shard['kind'] == 'soup':
        def body(x):
            text, toks = x
            got = check_text(acc, text, opens, 'soup', True)
            acc.case(text, nontrivial(text, got), {'text': text})
            for kind, t, _ in toks:
                acc.label('soup_' + kind)
            acc.label('soup_lexed' if got is not None else 'soup_rejected')
        run_given(gen_lexsoup.soup(), body, shard['n'], shard['hseed'], acc)
    elif shard['kind'] == 'history':
        for k, h in enumerate(histories()):
            if k % 16 == shard['part']:
                check_history(acc, opens, shard['root'], h)
                acc.case(('history', k), True, {'history': h} if k == 8 else None)
                acc.label('history_first_' + h[0][0])
    elif shard['kind'] == 'punct':
        for text in operator_runs(shard['part'], shard['maxlen']):
            got = check_text(acc, text, opens, 'punct', True)
            acc.case(text, got is not None and len(got) > 3, {'text': text} if len(text) == 6 and text[1] == '<' else None)
            acc.label('punct_lexed' if got is not None else 'punct_rejected')
    else:
        def body(p):
            got = check_text(acc, p['text'], opens, 'g1', False)
            acc.case(p['text'], nontrivial(p['text'], got), {'text': p['text']})
            acc.label('g1_lexed' if got is not None else 'g1_lexer_raises')
            acc.label('g1_layout_%d' % p['level'])
        run_given(gen_program.program_strategy(), body, shard['n'], shard['hseed'], acc)
    return acc.result()
