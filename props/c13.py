"""C13 - comment capture is faithful and does not perturb the parse."""
from hypothesis import strategies as st

from harness.runner import Acc
from harness import pdiff, canon, gen_program, ref_es5, positions, unparse
from props import c03

PROPERTY = 'C13'
LEVEL = 'exploration'
RULE = ('G1 programs rendered with line comments, single-line and multi-line block comments in Hypothesis-chosen gaps '
        '(restricted-production gaps get only comments without a line terminator), repository snippets, and the ASI product of C04 restricted to separators that contain a comment (statement kind x comment/line-break arrangement x following text, incl. multi-line comments right after return/break/continue/throw). Oracle: '
        '(a) parse(s, with_comments=True) accepts iff parse(s) accepts and the canonical trees are equal; (b) every '
        'attached comment equals the source text at its recorded offset, the reference lexer has a comment of the '
        'same kind there, its line/column agree with reference counting, offsets strictly increase within a node and '
        'no offset is attached twice in the tree; (c) o = pretty_print(tree); parse(o, with_comments=True) has the same '
        'canonical tree and the same sequence of comment values in traversal order, and the reference parser reads o '
        'as the same tree; (d) histories: a small pool of commented programs checked as above in an interpreter of its own whose first rendering of comments went through another printer (minify with captured comments, the minimum rule set, str() of a tree with only a block comment, ...). The library documents that not every comment is captured; no comment is required to be '
        'attached. non-trivial = >= 2 comments attached, at least one not at a statement start; distinct by text')
ASSUMPTIONS = c03.ASSUMPTIONS

STATEMENT_KINDS = frozenset(['ExprStatement', 'VarStatement', 'If', 'For', 'ForIn', 'While', 'DoWhile', 'Return',
                             'Throw', 'Break', 'Continue', 'Block', 'FuncDecl', 'Switch', 'Try', 'Label', 'With',
                             'EmptyStatement', 'Debugger', 'ES5Program'])


def attached(tree):
    """[(owner node, comment node)] in traversal order"""
    from calmjs.parse.walkers import Walker
    out = []
    nodes = [tree] + list(Walker().walk(tree))
    for n in nodes:
        cs = getattr(n, 'comments', None)
        if cs is not None:
            for c in cs.children():
                out.append((n, c))
    return out


def check(acc, opens, src, origin):
    case = {'text': src, 'origin': origin}
    c0 = pdiff.calmjs_parse(src, with_comments=False)
    c1 = pdiff.calmjs_parse(src, with_comments=True)
    if c0[0] == 'exc' or c1[0] == 'exc':
        acc.skipped['exception_is_C12'] += 1
        return None
    if (c0[0] == 'ok') != (c1[0] == 'ok'):
        acc.fail(None, case, {'bucket': 'acceptance_differs', 'without': c0[0], 'with': c1[0],
                              'error': c1[1] if c1[0] != 'ok' else c0[1]}, opens)
        return None
    if c0[0] != 'ok':
        acc.skipped['source_not_accepted'] += 1
        return None
    t0 = canon.canon_calmjs(c0[1])
    t1 = canon.canon_calmjs(c1[1])
    if t0 != t1:
        acc.fail(None, case, {'bucket': 'tree_differs_with_capture', 'diff': canon.first_diff(t1, t0)}, opens)
        return None
    tree = c1[1]
    # (b)
    lm = positions.LineMap(src)
    try:
        _, rcomments = None, None
        lx = ref_es5.parse(src)
        rcomments = dict((c[2], c) for c in lx.comments)
    except ref_es5.RefSyntaxError:
        acc.skipped['source_parser_disagreement_is_C03'] += 1
        return None
    att = attached(tree)
    seen = set()
    last_by_owner = {}
    for owner, c in att:
        val = c.value
        lp = c.lexpos
        if lp is None or src[lp:lp + len(val)] != val:
            acc.fail(None, case, {'bucket': 'comment_not_verbatim', 'value': val, 'lexpos': lp,
                                  'source_there': src[lp:lp + len(val)] if lp is not None else None}, opens)
            return None
        rc = rcomments.get(lp)
        kind = 'line' if type(c).__name__ == 'LineComment' else 'block'
        if rc is None or rc[0] != kind or rc[1] != val:
            acc.fail(None, case, {'bucket': 'not_a_source_comment', 'value': val, 'lexpos': lp,
                                  'reference': list(rc[:3]) if rc else None}, opens)
            return None
        if (c.lineno, c.colno) != lm.linecol(lp):
            acc.fail(None, case, {'bucket': 'comment_line_col', 'value': val, 'reported': [c.lineno, c.colno],
                                  'expected': list(lm.linecol(lp))}, opens)
            return None
        if lp in seen:
            acc.fail(None, case, {'bucket': 'comment_attached_twice', 'value': val, 'lexpos': lp}, opens)
            return None
        seen.add(lp)
        prev = last_by_owner.get(id(owner))
        if prev is not None and prev >= lp:
            acc.fail(None, case, {'bucket': 'comments_out_of_order_within_node', 'value': val}, opens)
            return None
        last_by_owner[id(owner)] = lp
    info = {'attached': len(att), 'source_comments': len(rcomments),
            'non_statement_owner': sum(1 for o, _ in att if type(o).__name__ not in STATEMENT_KINDS)}
    # (c) - only when calmjs and the reference agree on the source (else C03's business)
    if lx.tree != t0:
        acc.skipped['source_parser_disagreement_is_C03'] += 1
        return info
    try:
        o = unparse.pretty(tree, '  ')
    except Exception as e:
        acc.fail(None, case, {'bucket': 'print_raises:' + type(e).__name__, 'error': repr(e)[:200]}, opens)
        return info
    info['output'] = o
    values = [c.value for _, c in att]
    r = pdiff.ref_parse(o)
    if r[0] != 'ok' or r[1].tree != t0:
        acc.fail(classify(src, o, tree), case,
                 {'bucket': 'reference_reads_output_differently', 'output': o,
                  'why': str(r[1]) if r[0] != 'ok' else canon.first_diff(r[1].tree, t0)}, opens)
        return info
    c2 = pdiff.calmjs_parse(o, with_comments=True)
    if c2[0] != 'ok':
        acc.fail(classify(src, o, tree) or parser_side(o), case,
                 {'bucket': 'calmjs_rejects_output', 'output': o, 'error': c2[1]}, opens)
        return info
    t2 = canon.canon_calmjs(c2[1])
    if t2 != t0:
        acc.fail(classify(src, o, tree) or parser_side(o), case,
                 {'bucket': 'reparse_tree_differs', 'output': o, 'diff': canon.first_diff(t2, t0)}, opens)
        return info
    values2 = [c.value for _, c in attached(c2[1])]
    if values2 != values:
        sig = classify(src, o, tree)
        if sig is None and all_printed(values, o) and is_subsequence(values2, values):
            # the printer emitted every comment, in order; re-parsing captured only some of them
            sig = 'c13.printed_comment_not_recaptured'
        acc.fail(sig, case, {'bucket': 'comments_lost_or_reordered_after_print', 'output': o,
                             'before': values[:12], 'after': values2[:12]}, opens)
    return info


def parser_side(out):
    """the reference reads the output as the source tree but calmjs does not: a parser-side
    disagreement on the output, attributed to a listed parser finding if neutralisation removes it"""
    from harness import findings
    f2, i2 = pdiff.compare(out)
    if f2 is None or f2['kind'] == 'exception':
        return None

    def rerun(t2):
        g, _ = pdiff.compare(t2)
        return g
    sig, _ = findings.classify_parse_failure(out, f2, i2, rerun)
    return sig


def printed_in_order(values, out):
    pos = 0
    for v in values:
        i = out.find(v, pos)
        if i < 0:
            return False
        pos = i + len(v)
    return True


def all_printed(values, out):
    """every captured comment occurs in the output as often as it was captured (print order may differ
    from traversal order: DoWhile lists its predicate before its body)"""
    from collections import Counter
    return all(out.count(v) >= n for v, n in Counter(values).items())


def is_subsequence(small, big):
    it = iter(big)
    return all(any(x == y for y in it) for x in small)


RESTRICTED_PARENTS = ('Return', 'Throw', 'Break', 'Continue')


def classify(src, out, tree):
    """listed finding: a comment attached to the (leftmost node of the) operand of return/throw or
    the label of break/continue is printed with a trailing newline, splitting the restricted production"""
    from calmjs.parse.walkers import Walker
    for n in [tree] + list(Walker().walk(tree)):
        name = type(n).__name__
        if name == 'For':
            for clause in (n.init, n.cond):
                if type(clause).__name__ == 'EmptyStatement' and getattr(clause, 'comments', None) is not None:
                    return 'c13.comment_on_empty_for_clause_placeholder'
        operand = None
        if name in ('Return', 'Throw'):
            operand = n.expr
        elif name in ('Break', 'Continue'):
            operand = n.identifier
        if operand is None:
            continue
        # any node on the leftmost spine of the operand
        node = operand
        for _ in range(1000):
            if getattr(node, 'comments', None) is not None:
                return 'c13.comment_newline_splits_restricted_production'
            nxt = _leftmost_step(node)
            if nxt is None:
                break
            node = nxt
    return None


def _leftmost_step(node):
    name = type(node).__name__
    if name in ('BinOp', 'Assign', 'Comma'):
        return node.left
    if name == 'Conditional':
        return node.predicate
    if name in ('DotAccessor', 'BracketAccessor'):
        return node.node
    if name == 'FunctionCall':
        return node.identifier
    if name == 'PostfixExpr':
        return node.value
    return None


def replay(case, acc):
    if 'first' in case:
        from harness import build
        root = build.make_copy()
        try:
            check_history(acc, (), root, case['first'], [case['text']])
        finally:
            build.remove(root)
        return
    check(acc, (), case['text'], case.get('origin', 'replay'))


# ---- what was printed first in the process must not matter: each history runs in an interpreter of its own,
# where the first comments ever rendered go through some other printer
FIRSTS = ['none', 'minify_with_comments', 'minimum_rules', 'str_block_comment_only', 'minify_line_comment_only',
          'minify_obfuscate', 'pretty_without_capture']
HISTORY_TEXTS = ['/*lead*/ a = 1; // tail\nb = 2;', '// only line\nfoo();\n/* block */\nbar();',
                 'function f(a) { /*b*/ return a; }\n// end\nf(1);', 'var x = 1, /*y*/ y = 2;',
                 '/* one */ /* two */ // three\nz;', 'if (p) { // c\n q(); }']


def do_first(first):
    from calmjs.parse import es5
    from calmjs.parse.unparsers.es5 import Unparser, minify_print, pretty_print
    src = '/*a*/ x = 1; // b\n y;'
    if first == 'minify_with_comments':
        es5.minify_print(src, with_comments=True)
    elif first == 'minimum_rules':
        from calmjs.parse.handlers.core import minimum_rules
        ''.join(c.text for c in Unparser(rules=(minimum_rules,))(es5(src, with_comments=True)))
    elif first == 'str_block_comment_only':
        str(es5('/*a*/ x;', with_comments=True))
    elif first == 'minify_line_comment_only':
        minify_print(es5('// b\n y;', with_comments=True))
    elif first == 'minify_obfuscate':
        minify_print(es5(src, with_comments=True), obfuscate=True, obfuscate_globals=True)
    elif first == 'pretty_without_capture':
        pretty_print(es5(src))


CHILD_CODE = r'''
import json
sys.path.insert(0, sys.argv[1])
from harness.runner import Acc
from props import c13
first, texts, opens = json.loads(sys.argv[2])
c13.do_first(first)
acc = Acc()
infos = []
for t in texts:
    info = c13.check(acc, opens, t, 'history')
    infos.append(info and {'attached': info['attached'], 'output': info.get('output')})
print(json.dumps({'failures': acc.failures, 'known': dict(acc.known), 'infos': infos}))
'''


def check_history(acc, opens, root, first, texts):
    import json
    import os
    import subprocess
    import sys
    from harness import build
    here = os.path.dirname(os.path.dirname(os.path.abspath(__file__)))
    p = subprocess.run([sys.executable, '-c', build.boot_code(root) + CHILD_CODE, here,
                        json.dumps([first, texts, list(opens)])],
                       env=build.child_env(root), capture_output=True, text=True, timeout=600)
    if p.returncode != 0:
        acc.fail(None, {'first': first, 'text': texts[0]}, {'bucket': 'history_child_fails', 'stderr': p.stderr[-400:]},
                 opens)
        return []
    r = json.loads(p.stdout.strip().splitlines()[-1])
    for f in r['failures']:
        acc.fail(f['signature'], dict(f['case'], first=first), dict(f['detail'], first=first), opens)
    for k, n in r['known'].items():
        acc.known[k] += n
    return r['infos']


from harness.shrink import text_shrinker  # noqa: E402
shrink = text_shrinker(replay, 'text')



def plan(tier, seed):
    from harness import refgate
    refgate.run(200 if tier == 'quick' else 2000)
    n = 2400 if tier == 'quick' else 100000
    shards = [{'name': 'g1-%d' % k, 'kind': 'g1', 'n': n // 16, 'hseed': seed * 1000 + k} for k in range(16)]
    shards.append({'name': 'corpus', 'kind': 'corpus'})
    # statement x separator-with-comment x following text (the ASI product of C04): comments at and around
    # every automatic-semicolon point and inside restricted productions, multi-line ones included
    for k in range(16):
        shards.append({'name': 'asi-%d' % k, 'kind': 'asi', 'k': k, 'of': 16, 'stride': 6 if tier == 'quick' else 1})
    for first in FIRSTS:
        shards.append({'name': 'history-' + first, 'kind': 'history', 'first': first})
    return shards


def run_shard(shard):
    from harness.hyp import run_given
    acc = Acc()
    opens = shard['open_signatures']

    def one(src, origin):
        info = check(acc, opens, src, origin)
        nt = bool(info) and info['attached'] >= 2 and info['non_statement_owner'] >= 1
        acc.case(src, nt, {'text': src, 'attached': info['attached'], 'output': info.get('output')} if info else None)
        if info:
            acc.label('attached_%d' % min(info['attached'], 6))
            acc.extra['comments_attached'] = acc.extra.get('comments_attached', 0) + info['attached']
            acc.extra['comments_in_sources'] = acc.extra.get('comments_in_sources', 0) + info['source_comments']
    if shard['kind'] == 'history':
        infos = check_history(acc, opens, shard['root'], shard['first'], HISTORY_TEXTS)
        for t, info in zip(HISTORY_TEXTS, infos):
            acc.case((shard['first'], t), bool(info) and info['attached'] >= 2,
                     {'first': shard['first'], 'text': t, 'output': info.get('output')} if info else None)
            acc.label('history_first_' + shard['first'])
    elif shard['kind'] == 'asi':
        from props import c04
        n = 0
        for idx, (src, meta) in enumerate(c04.product_cases()):
            if '/*' not in meta[1] and '//' not in meta[1]:
                continue
            n += 1
            if n % shard['of'] != shard['k']:
                continue
            if shard['stride'] > 1 and (n // shard['of']) % shard['stride'] != shard['seed'] % shard['stride']:
                continue
            one(src, 'asi_product')
    elif shard['kind'] == 'g1':
        strat = gen_program.program_strategy(layout_levels=(3,), max_fuel=5)
        run_given(strat, lambda p: one(p['text'], 'g1'), shard['n'], shard['hseed'], acc)
    else:
        for src in c03.load_corpus():
            one(src, 'corpus')
    return acc.result()
