"""C12 - any input either parses or raises the ECMAScript syntax error, only."""
import ast
import itertools
import re
import signal
import time

from harness.runner import Acc
from harness import gen_lexsoup, gen_program, positions
from props.c03 import load_corpus

PROPERTY = 'C12'
LEVEL = 'exploration'
RULE = ('inputs: Hypothesis text() over the full code-point range (surrogates, NUL, BOM); lexical soup with `/` '
        'and broken pieces; every kind of single-character corruption (delete / replace by one of 46 hot characters) '
        'and truncation of G1 programs and repository snippets; exhaustively all strings of length <= 3 (quick) / '
        '<= 4 (thorough) over a hot alphabet; runs of 33 / 48 / 600 repetitions of one lexical unit (combining marks, escapes, brackets, comment and string openers, operators ...) in 24 contexts where the lexer looks ahead or retries; long flat expressions and long runs (1500 / 6000) of blank lines of every kind, comment lines and comments in a row; a coverage-guided atheris/libFuzzer campaign (seed corpus = repository snippets + empty input, JS token dictionary) with the same oracle inside the target; each through parse(text), parse(text, with_comments=True) and bare '
        'Lexer iteration. Oracle: outcome is a tree or ECMASyntaxError (subclass); nothing else escapes; no case '
        'exceeds the process-level watchdog twice (each case runs in a child interpreter that is killed on timeout); the first quoted text of a syntax-error message occurs in the input at the '
        'quoted line:column. non-trivial = input containing a string/regex/comment opener or >= 2 tokens '
        '(white-space separated pieces or punctuation mix); distinct by text')
ASSUMPTIONS = ['RecursionError is tolerated for deeply nested inputs (a bound of the interpreter), not for long flat ones', 'termination is judged by a generous per-case watchdog (20 s, re-run once with 60 s); a trip is '
               'reported only when it repeats',
               'message formats are the library\'s own stable formats; messages without a quoted text + L:C are not checked']

QUOTED_AT = re.compile(r"""('(?:[^'\\]|\\.)*'|"(?:[^"\\]|\\.)*") at (-?\d+):(-?\d+)""", re.S)


class Timeout(Exception):
    pass


def _alarm(signum, frame):
    raise Timeout()


def run_with_watchdog(fn, seconds):
    old = signal.signal(signal.SIGALRM, _alarm)
    signal.setitimer(signal.ITIMER_REAL, seconds)
    try:
        return fn()
    finally:
        signal.setitimer(signal.ITIMER_REAL, 0)
        signal.signal(signal.SIGALRM, old)


def outcome(text, mode):
    """-> ('ok',) | ('syntax', msg) | ('exc', type, repr, frame)"""
    from calmjs.parse.parsers.es5 import parse
    from calmjs.parse.lexers.es5 import Lexer
    from calmjs.parse.exceptions import ECMASyntaxError
    from harness.pdiff import innermost_frame
    try:
        if mode == 'parse':
            parse(text)
        elif mode == 'parse_wc':
            parse(text, with_comments=True)
        else:
            lx = Lexer(yield_comments=(mode == 'lex_yc'))
            lx.input(text)
            n = 0
            for _ in lx:
                n += 1
                if n > 20 * len(text) + 100:
                    return ('exc', 'EndlessTokenStream', 'more than 20 tokens per input character', 'lexer')
        return ('ok',)
    except ECMASyntaxError as e:
        return ('syntax', str(e))
    except Timeout:
        raise
    except RecursionError:
        return ('recursion',)
    except Exception as e:
        return ('exc', type(e).__name__, repr(e)[:200], innermost_frame(e))


def check_message(text, msg):
    """-> None or description of the mismatch between the message's first quoted text+position
    and the input"""
    if msg.startswith('Error parsing regular expression \''):
        m = re.match(r"Error parsing regular expression '(.*)' at (-?\d+):(-?\d+)\Z", msg, re.S)
        if not m:
            return None
        quoted, line, col = m.group(1), int(m.group(2)), int(m.group(3))
    elif msg.startswith('Invalid ') and 'escape sequence' in msg:
        m = re.match(r"Invalid \w+ escape sequence '(.*)' at (-?\d+):(-?\d+)\Z", msg, re.S)
        if not m:
            return None
        quoted, line, col = m.group(1), int(m.group(2)), int(m.group(3))
    elif msg.startswith('Mismatched \''):
        m = re.match(r"Mismatched '(.*)' at (-?\d+):(-?\d+)\Z", msg, re.S)
        if not m:
            return None
        quoted, line, col = m.group(1), int(m.group(2)), int(m.group(3))
    else:
        m = QUOTED_AT.search(msg)
        if not m:
            return None
        try:
            quoted = ast.literal_eval(m.group(1))
        except Exception:
            return 'unparsable quoted text %r' % m.group(1)
        line, col = int(m.group(2)), int(m.group(3))
        if msg.startswith('Unterminated string literal') and quoted.endswith('...'):
            quoted = quoted[:-3]
    lm = positions.LineMap(text)
    off = lm.offset(line, col)
    if off is None:
        return 'no such position %d:%d (quoted %r)' % (line, col, quoted)
    if not text.startswith(quoted, off):
        return 'input at %d:%d (offset %d) is %r, message quotes %r' % (
            line, col, off, text[off:off + max(8, len(quoted))], quoted)
    return None


MODES = ('parse', 'parse_wc', 'lex', 'lex_yc')

# A hang inside the C regular-expression engine (catastrophic back-tracking) never returns to the
# interpreter, so no in-process alarm can interrupt it.  Every case is therefore evaluated by a child
# interpreter that the worker can kill: "does not loop" is decided by a process-level watchdog.
SERVE_MAIN = r'''
import json, sys
from props import c12
sys.stdout.write(json.dumps({'ready': True}) + '\n'); sys.stdout.flush()
for line in sys.stdin:
    req = json.loads(line)
    res = [list(c12.outcome(req['text'], m)) for m in req['modes']]
    sys.stdout.write(json.dumps(res) + '\n'); sys.stdout.flush()
'''


class Child(object):
    def __init__(self, root):
        import subprocess
        import sys
        from harness import build
        from harness.runner import VERIF
        self.root = root
        code = build.boot_code(root) + ('sys.path.insert(0, %r)\n' % VERIF) + SERVE_MAIN
        env = build.child_env(root)
        self.p = subprocess.Popen([sys.executable, '-c', code], env=env, stdin=subprocess.PIPE,
                                  stdout=subprocess.PIPE, stderr=subprocess.DEVNULL, cwd=VERIF)
        if self._read(60) is None:
            raise RuntimeError('C12 child interpreter did not start')

    def _read(self, timeout):
        import json
        import os
        import select
        buf = b''
        end = time.time() + timeout
        fd = self.p.stdout.fileno()
        while True:
            left = end - time.time()
            if left <= 0:
                return None
            r, _, _ = select.select([fd], [], [], left)
            if not r:
                return None
            chunk = os.read(fd, 1 << 16)
            if not chunk:
                raise RuntimeError('C12 child interpreter died')
            buf += chunk
            if buf.endswith(b'\n'):
                return json.loads(buf.decode('utf-8'))

    def ask(self, text, modes, timeout):
        import json
        self.p.stdin.write((json.dumps({'text': text, 'modes': list(modes)}) + '\n').encode('utf-8'))
        self.p.stdin.flush()
        return self._read(timeout)

    def kill(self):
        try:
            self.p.kill()
            self.p.wait(timeout=10)
        except Exception:
            pass


_CHILD = {}


def child_for(root):
    c = _CHILD.get('c')
    if c is None or c.p.poll() is not None:
        c = _CHILD['c'] = Child(root)
    return c


def evaluate(root, text, timeout):
    """-> list of outcomes (one per mode) or None when the child had to be killed"""
    c = child_for(root)
    res = c.ask(text, MODES, timeout)
    if res is None:
        c.kill()
        _CHILD.pop('c', None)
        return None
    return [tuple(r) for r in res]


def check_text(acc, text, opens, origin):
    labels = []
    if acc.extra.get('shard_aborted'):
        acc.skipped['after_shard_abort'] += 1
        return labels
    root = acc.extra.get('_root') or _default_root()
    confirmed = acc.extra.get('nontermination_confirmed', 0)
    outs = evaluate(root, text, 20 if confirmed < 2 else 3)
    if outs is None:
        if confirmed >= 2:
            acc.label('slow_case_after_confirmed_nontermination')
            if acc.labels['slow_case_after_confirmed_nontermination'] >= 10:
                # the tree under test hangs on a whole class of inputs: report what was confirmed and
                # stop this shard instead of spending its budget on more of the same
                acc.extra['shard_aborted'] = 1
                acc.budget_hit = True
            return labels
        # re-run alone in a fresh child, one mode at a time, with a larger allowance
        hung = None
        for mode in MODES:
            c = child_for(root)
            r = c.ask(text, (mode,), 60)
            if r is None:
                c.kill()
                _CHILD.pop('c', None)
                hung = mode
                break
        if hung is None:
            acc.label('watchdog_tripped_once')
            outs = evaluate(root, text, 120)
            if outs is None:
                hung = 'all modes together'
        if hung is not None:
            acc.extra['nontermination_confirmed'] = confirmed + 1
            acc.fail('c12.suspected_nontermination', {'text': text, 'mode': hung, 'origin': origin},
                     {'bucket': 'nontermination', 'mode': hung,
                      'note': 'no result within 20 s and, re-run alone in a fresh interpreter, within 60 s '
                              '(median case: ~2 ms); the child interpreter had to be killed'}, opens)
            return labels
    for mode, out in zip(MODES, outs):
        labels.append(out[0])
        if out[0] == 'exc':
            acc.fail(None, {'text': text, 'mode': mode, 'origin': origin},
                     {'bucket': '%s@%s' % (out[1], out[3]), 'error': out[2], 'mode': mode}, opens)
        elif out[0] == 'syntax':
            bad = check_message(text, out[1])
            if bad:
                sig = classify_message_failure(text, out[1], bad)
                acc.fail(sig, {'text': text, 'mode': mode, 'origin': origin, 'check': 'message'},
                         {'bucket': 'message:' + re.sub(r'\d+', 'N', out[1])[:40], 'message': out[1],
                          'mismatch': bad, 'mode': mode}, opens)
        elif out[0] == 'recursion':
            # the interpreter's recursion limit is an accepted bound on *nesting*; a text that is long but
            # flat (no brackets nested deeper than a few dozen) has no business hitting it
            if bracket_depth(text) < 40 and mode in ('parse', 'parse_wc') and origin == 'runs':
                acc.fail(None, {'text': text, 'mode': mode, 'origin': origin},
                         {'bucket': 'RecursionError_on_flat_input', 'length': len(text), 'mode': mode}, opens)
            else:
                acc.skipped['recursion_limit'] += 1
    return labels


def bracket_depth(text):
    depth = best = 0
    for ch in text:
        if ch in '([{':
            depth += 1
            best = max(best, depth)
        elif ch in ')]}':
            depth = max(0, depth - 1)
    return best


def _default_root():
    from harness import build
    return build._made[0]


def classify_message_failure(text, msg, bad):
    return None


def replay(case, acc):
    check_text(acc, case['text'], (), case.get('origin', 'replay'))


OPENERS = ("'", '"', '/', '\\')


def nontrivial(text):
    if any(c in text for c in OPENERS):
        return True
    return len(re.findall(r'\w+|[^\w\s]', text)) >= 2


def plan(tier, seed):
    shards = []
    quick = tier == 'quick'
    nproc = 16
    n_text, n_soup, n_corrupt = (16000, 8000, 8000) if quick else (600000, 300000, 400000)
    for k in range(nproc):
        shards.append({'name': 'text-%d' % k, 'kind': 'text', 'n': n_text // nproc, 'hseed': seed * 1000 + k})
        shards.append({'name': 'soup-%d' % k, 'kind': 'soup', 'n': n_soup // nproc, 'hseed': seed * 1000 + 100 + k})
        shards.append({'name': 'corrupt-%d' % k, 'kind': 'corrupt', 'n': n_corrupt // nproc,
                       'hseed': seed * 1000 + 200 + k})
    alpha = EXH_ALPHA_QUICK if quick else EXH_ALPHA
    nlen = 3 if quick else 4
    total = sum(len(alpha) ** k for k in range(nlen + 1))
    ns = 32 if quick else 128
    step = (total + ns - 1) // ns
    for k in range(ns):
        shards.append({'name': 'exh-%d' % k, 'kind': 'exh', 'lo': k * step, 'hi': min(total, (k + 1) * step),
                       'alpha': alpha})
    # long runs of one lexical unit in the positions where the lexer looks ahead or retries (catastrophic
    # back-tracking shows as a hang, which the watchdog turns into a violation)
    for k in range(4):
        shards.append({'name': 'runs-%d' % k, 'kind': 'runs', 'k': k, 'of': 4})
    # coverage-guided campaign (atheris/libFuzzer), one child interpreter per shard
    nf, runs = (2, 2500) if quick else (16, 200000)
    fuzz = [{'name': 'fuzz-%d' % k, 'kind': 'fuzz', 'runs': runs, 'fseed': seed * 100 + k + 1} for k in range(nf)]
    return fuzz + shards  # the long-running children first, so they overlap with everything else


EXH_ALPHA = ['\\', "'", '"', '/', '*', '(', ')', '{', '}', '[', ']', '0', '8', 'x', 'u', 'e', '.', '+', '-', '=',
             '\n', '\r', u'\u2028', ' ', ';', ',', ':', 'a', '<', '!', '?', u'\ufeff']
EXH_ALPHA_QUICK = EXH_ALPHA


def exh_string(index, alpha):
    base = len(alpha)
    k = 0
    while index >= base ** k:
        index -= base ** k
        k += 1
    out = []
    for _ in range(k):
        out.append(alpha[index % base])
        index //= base
    return ''.join(out[::-1])


RUN_UNITS = [u'\u0301', u'\u0300\u0301', 'a', 'a1', '\\', '(', ')', '[', '/*', '*/', "'", '"', '/', '.', '0', 'e', '+', '-', ' ',
             '\n', u'\u203f', '\\u0061', '=', 'x=', '/a', '*', '{', '}', ';', ',', '?a:', 'a.']
RUN_CONTEXTS = ['%s', 'get %s(', 'set\n%s (', 'var get;\nget\na%s = 1;', 'x = {get a%s(){}}', 'x = /%s', 'x = /[%s', "'%s",
                '"\\%s', 'a%s', 'a%s;', '/*%s', '//%s', 'x = 1%s', 'return\n%s;', 'a\n++%s', 'return\n%sx', 'break\n%sa()',
                'a = b\n%s++c', 'x = {get%s(){}}', 'throw /*c*/\n%se', '%sz;', 'x = %sz;', 'f(%sz);']


def run_texts():
    for ctx in RUN_CONTEXTS:
        for unit in RUN_UNITS:
            for n in (33, 48, 600):
                yield ctx % (unit * n)
    # long flat expressions (left-nested trees) as statement, initialiser and argument
    for ctx in ('%sz;', 'x = %sz;', 'f(%sz);', 'if (%sz) y;'):
        for unit in ('a + ', 'a.', 'f().', 'a[0].', 'a, ', 'a || ', 'a = ', 'a ? b : '):
            yield ctx % (unit * 1500)
            yield ctx % (unit * 6000)
    # long runs of layout: blank lines of every kind, comment lines, comments in a row
    for ctx in ('%s', '%sz;', 'z;%s', 'a = b%sc;', 'a%s;'):
        for unit in ('\n', '\r\n', '\r', u'\u2028', u'\u2029', '//c\n', '/*c*/', '/*c*/\n', ' \n', '/*\n*/ ', '\t\n//\n'):
            yield ctx % (unit * 1500)
            yield ctx % (unit * 6000)


def run_shard(shard):
    from harness.hyp import run_given
    from hypothesis import strategies as st
    acc = Acc()
    opens = shard['open_signatures']
    kind = shard['kind']
    acc.extra['_root'] = shard['root']

    def one(text, origin, sample=True):
        labels = check_text(acc, text, opens, origin)
        acc.case(text, nontrivial(text), {'text': text, 'origin': origin} if sample else None)
        acc.label('%s_parse_%s' % (origin, labels[0] if labels else '?'))

    if kind == 'runs':
        n = 0
        for idx, text in enumerate(run_texts()):
            if idx % shard['of'] == shard['k']:
                one(text, 'runs', sample=(n % 40 == 0))
                n += 1
    elif kind == 'text':
        strat = st.one_of(
            st.text(max_size=60),
            st.text(alphabet=st.characters(), max_size=200),
            st.text(alphabet=st.sampled_from(gen_lexsoup.HOT + ['a', 'b', ' ', '\n']), max_size=40),
        )
        run_given(strat, lambda t: one(t, 'text'), shard['n'], shard['hseed'], acc)
    elif kind == 'soup':
        pieces = st.one_of(
            gen_lexsoup.element().map(lambda e: e[1]),
            st.sampled_from(gen_lexsoup.WS + gen_lexsoup.LTS + gen_lexsoup.COMMENTS),
            st.sampled_from(['/', '/=', '/re/', '/[/', '/*', '*/', '//', '"', "'", '\\', '\\u', '\\u00', '0x', '1e',
                             '.', '..', '08', '1.2.3', '"\\', "'\\x", '/\\', '/a\n/', '#', '@', '`', u'\ud800',
                             '\x00', '<!--', '-->', '\\u0061', 'a\\u0062', '\\u0030', '/a/y', '/b/gg', '/c/u9', '/d/$', u'/e/\u00e9', '/f/g_']),
        )
        strat = st.lists(pieces, max_size=12).map(''.join)
        run_given(strat, lambda t: one(t, 'soup'), shard['n'], shard['hseed'], acc)
    elif kind == 'corrupt':
        corpus = load_corpus()

        @st.composite
        def corrupt(draw):
            if draw(st.integers(0, 2)) == 0:
                base = draw(st.sampled_from(corpus))
            else:
                base = draw(gen_program.program_strategy(max_fuel=4))['text']
            if not base:
                return 'insert', draw(st.sampled_from(gen_lexsoup.HOT))
            op = draw(st.sampled_from(['truncate', 'delete', 'replace', 'insert']))
            i = draw(st.integers(0, len(base) - 1))
            if op == 'truncate':
                return op, base[:i]
            if op == 'delete':
                return op, base[:i] + base[i + 1:]
            c = draw(st.sampled_from(gen_lexsoup.HOT))
            if op == 'replace':
                return op, base[:i] + c + base[i + 1:]
            return op, base[:i] + c + base[i:]
        run_given(corrupt(), lambda m: one(m[1], 'corrupt_' + m[0]), shard['n'], shard['hseed'], acc)
    elif kind == 'fuzz':
        run_fuzz(acc, opens, shard)
    else:
        alpha = shard['alpha']
        for idx in range(shard['lo'], shard['hi']):
            t = exh_string(idx, alpha)
            one(t, 'exh', sample=(idx % 997 == 0))
        acc.extra['exhaustive_strings'] = shard['hi'] - shard['lo']
        acc.extra['exhaustive_alphabet'] = [''.join(alpha)]
    acc.extra.pop('_root', None)
    c = _CHILD.pop('c', None)
    if c is not None:
        c.kill()
    return acc.result()


def run_fuzz(acc, opens, shard):
    import json
    import os
    import shutil
    import subprocess
    import sys
    import tempfile
    from harness.runner import VERIF
    if not os.path.isdir(os.path.join(VERIF, '.deps', 'atheris')):
        acc.label('atheris_not_installed_campaign_skipped')
        return
    work = tempfile.mkdtemp(prefix='calmjs-fuzz-')
    try:
        p = subprocess.run([sys.executable, os.path.join(VERIF, 'harness', 'fuzz_c12.py'), shard['root'], work,
                            str(shard['runs']), str(shard['fseed'])], capture_output=True, text=True,
                           timeout=6 * 3600)
        stats_file = os.path.join(work, 'stats.json')
        if not os.path.exists(stats_file):
            if any(f.startswith(('timeout-', 'crash-')) for f in os.listdir(work)):
                stats = {'executions': 0, 'outcomes': {}}
            else:
                raise RuntimeError('fuzz child produced no statistics (rc=%s): %s' % (p.returncode, p.stderr[-800:]))
        else:
            with open(stats_file) as fd:
                stats = json.load(fd)
        for f in sorted(os.listdir(work)):
            if f.startswith(('timeout-', 'crash-', 'oom-')):
                # libFuzzer stopped on this input (its own -timeout alarm fires even inside C code)
                with open(os.path.join(work, f), 'rb') as fd:
                    data = fd.read()
                try:
                    text = data[1:].decode('utf-8', 'replace')
                except Exception:
                    continue
                acc.label('fuzz_artifact_' + f.split('-')[0])
                check_text(acc, text, opens, 'fuzz_' + f.split('-')[0])
            if f.startswith('finding-'):
                with open(os.path.join(work, f)) as fd:
                    d = json.load(fd)
                # re-judge in this process through the ordinary oracle (this also writes the replay case)
                check_text(acc, d['text'], opens, 'fuzz')
        acc.evaluations += stats['executions']
        acc.extra['fuzz_executions'] = acc.extra.get('fuzz_executions', 0) + stats['executions']
        acc.extra['fuzz_corpus_files'] = acc.extra.get('fuzz_corpus_files', 0) + stats.get('corpus_files', 0)
        for k, v in stats.get('outcomes', {}).items():
            acc.label('fuzz_outcome_' + k, v)
        # a few corpus entries the fuzzer kept (coverage-increasing inputs) as samples / non-trivial cases
        cdir = os.path.join(work, 'corpus')
        kept = [f for f in sorted(os.listdir(cdir)) if not f.startswith(('seed-', 'empty'))]
        for f in kept:
            with open(os.path.join(cdir, f), 'rb') as fd:
                text = fd.read()[1:].decode('utf-8', 'replace')
            if nontrivial(text):
                acc.nontrivial.add(hash(('fuzz', text)))
        for f in kept[:3]:
            with open(os.path.join(cdir, f), 'rb') as fd:
                acc.samples.append({'text': fd.read()[1:].decode('utf-8', 'replace'), 'origin': 'fuzz_corpus'})
    finally:
        shutil.rmtree(work, ignore_errors=True)


def finish(m, cov, tier):
    cov['coverage_guided'] = {'engine': 'atheris 3.1 / libFuzzer', 'executions': m['extra'].get('fuzz_executions', 0),
                              'corpus_files_kept': m['extra'].get('fuzz_corpus_files', 0)}
    cov['exhaustive_part'] = 'all %d strings of length <= %d over the %d-character hot alphabet' % (
        m['extra'].get('exhaustive_strings', 0), 3 if tier == 'quick' else 4, len(EXH_ALPHA))
