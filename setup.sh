#!/bin/sh
# setup_cmd: offline; make sure hypothesis is importable in /venv (it is on this image).
set -e
cd "$(dirname "$0")"
if ! /venv/bin/python -c "import hypothesis" 2>/dev/null; then
  /venv/bin/pip install --no-index --find-links /opt/veriftools/wheels hypothesis
fi
/venv/bin/python -c "import hypothesis, ply; print('hypothesis', hypothesis.__version__, 'ply', ply.__version__)"
mkdir -p evidence replays
