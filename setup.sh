#!/bin/sh
# setup_cmd: offline; make sure hypothesis is importable in /venv (it is on this image).
set -e
cd "$(dirname "$0")"
if ! /venv/bin/python -c "import hypothesis" 2>/dev/null; then
  /venv/bin/pip install --no-index --find-links /opt/veriftools/wheels hypothesis
fi
/venv/bin/python -c "import hypothesis, ply; print('hypothesis', hypothesis.__version__, 'ply', ply.__version__)"
# atheris (coverage-guided part of C12) goes into .deps, beside the repository's packages
if [ ! -d .deps/atheris ]; then
  /venv/bin/pip install --no-index --find-links /opt/veriftools/wheels --target .deps atheris >/dev/null 2>&1 || echo "atheris not installable: C12 skips its coverage-guided shards"
fi
mkdir -p evidence replays
